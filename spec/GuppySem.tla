------------------------------ MODULE GuppySem ------------------------------
(* Small-step operational semantics (CEK machine: control, environment, continuation
   stack, store, output) of the Python fragment that Guppy accepts, with an explicit
   event output.  It is the source-level oracle for the compiled program: the HUGR that
   /repo emits is executed by the reference interpreter and its event stream must be a
   behaviour of this machine (module GuppySem_Trace).

   One action per evaluation step:
     Eval     dispatch on the expression in control          (pushes a frame or yields a value)
     Apply    a value meets the top continuation frame
     Exec     dispatch on the next statement
     Unwind   break / continue / return / normal completion travel down the stack
     Emit     result(tag, v)        -- the observable events
     Panic    panic(msg)            -- terminal: nothing after a panic runs
     Halt     entry function returned

   Programs arrive as JSON (IOEnv.VERIF_IN), ASTs as tagged tuples produced by
   harness/py2json.py from the same source text that is handed to @guppy:
     expressions  <<"Const", kind, v>> <<"Name", x>> <<"BinOp", op, l, r>> <<"UnaryOp", op, e>>
                  <<"BoolOp", op, <<e..>>>> <<"Compare", left, <<ops>>, <<es>>>> <<"IfExp", t, a, b>>
                  <<"Walrus", x, e>> <<"Tuple", <<e..>>>> <<"Array", <<e..>>>> <<"Sub", base, idx>>
                  <<"Attr", e, field>> <<"Call", f, <<args>>>> <<"Builtin", name, <<args>>>>
                  <<"Struct", name, <<fieldnames>>, <<args>>>> <<"Copy", e>> <<"MustReject", what>>
     statements   <<"Assign", target, e>> <<"Aug", op, target, e>> <<"ExprStmt", e>> <<"Result", tag, e>>
                  <<"Panic", msg, <<e..>>>> <<"If", t, body, orelse>> <<"While", t, body, orelse>>
                  <<"ForRange", target, <<args>>, body, orelse>> <<"ForArr", target, e, body, orelse>>
                  <<"Break">> <<"Continue">> <<"Return", e>> <<"ReturnNone">> <<"Pass">>
                  <<"Def", x, fname>> <<"MustReject", what>>
     targets      <<"TName", x>> <<"TTuple", <<targets>>>> <<"TSub", base-expr, idx>> <<"TAttr", x, field>>
                  <<"TStar", <<targets before>>, star target, <<targets after>>>>
   Values are tagged:  <<"int", n>> <<"bool", 0|1>> <<"float", q>> (q quarter units)
     <<"tuple", <<v..>>>> <<"sref", a>> (struct object in the store: <<"struct", name, <<fieldnames>>, <<v..>>>>) <<"ref", a>> (array in the store)
     <<"fn", fname>> <<"none">> <<"str", s>>
   Serves C03, C05, C07, C13, C15, C16, C19, C21, C27, C32. *)
EXTENDS Integers, Sequences, FiniteSets, TLC, Json, IOUtils

Input == JsonDeserialize(IOEnv.VERIF_IN)
Progs == Input.progs
Runs  == Input.runs      \* [prog |-> i, args |-> <<v..>>, trace |-> <<events>>, end |-> "return"|"panic", kind |-> ..]

VARIABLES r,      \* run being executed
          c,      \* control
          k,      \* continuation stack (top = last)
          env,    \* environment of the current function activation: variable -> value
          store,  \* array store: sequence of sequences of values
          out,    \* number of events emitted so far
          st,     \* "run" | "done" | "panic" | "stuck"
          last    \* last emitted event (observation variable)
vars == <<r, c, k, env, store, out, st, last>>

P == Progs[Runs[r].prog]
Funcs == P.funcs         \* record: fname -> [params |-> <<x..>>, body |-> <<stmt..>>]
Methods == P.methods     \* record: struct name -> record: method name -> function name ("Cls.meth")
\* the function implementing method m for the value v ("" if there is none): user-defined methods of struct objects
MethodOf(st0, v, m) ==
    IF v[1] = "sref" /\ st0[v[2]][2] \in DOMAIN Methods /\ m \in DOMAIN Methods[st0[v[2]][2]]
    THEN Methods[st0[v[2]][2]][m] ELSE ""
UnDunder(op) == CASE op = "+" -> "__pos__" [] op = "-" -> "__neg__" [] op = "~" -> "__invert__" [] OTHER -> ""
BinDunder(op) == CASE op = "+" -> "__add__" [] op = "-" -> "__sub__" [] op = "*" -> "__mul__" [] op = "//" -> "__floordiv__"
                   [] op = "%" -> "__mod__" [] op = "&" -> "__and__" [] op = "|" -> "__or__" [] op = "^" -> "__xor__"
                   [] op = "<<" -> "__lshift__" [] op = ">>" -> "__rshift__" [] op = "**" -> "__pow__" [] op = "/" -> "__truediv__"
                   [] OTHER -> ""

---------------------------------------------------------------------------
\* helpers
Top == k[Len(k)]
Pop == SubSeq(k, 1, Len(k) - 1)
Push(f) == Append(k, f)
Push2(f1, f2) == Append(Append(k, f1), f2)
Tail1(s) == SubSeq(s, 2, Len(s))
IntV(n) == <<"int", n>>
BoolV(b) == <<"bool", IF b THEN 1 ELSE 0>>
None == <<"none">>
Truthy(v) == CASE v[1] = "bool" -> v[2] = 1
               [] v[1] = "int" -> v[2] # 0
               [] v[1] = "float" -> v[2] # 0
               [] OTHER -> TRUE
EmptyEnv == [x \in {} |-> None]
Bind(e, x, v) == [y \in DOMAIN e \cup {x} |-> IF y = x THEN v ELSE e[y]]

\* Python arithmetic on (small) integers
Abs(n) == IF n < 0 THEN -n ELSE n
FloorDiv(a, b) ==       \* Python a // b, b # 0
    IF b > 0 THEN a \div b ELSE (-a) \div (-b)
PyMod(a, b) == a - b * FloorDiv(a, b)
RECURSIVE PyPow(_, _)
PyPow(a, n) == IF n = 0 THEN 1 ELSE a * PyPow(a, n - 1)
RECURSIVE Pow2(_)
Pow2(n) == IF n = 0 THEN 1 ELSE 2 * Pow2(n - 1)
\* bitwise ops on non-negative ints
RECURSIVE BitOp(_, _, _)
BitOp(op, a, b) ==
    IF a = 0 /\ b = 0 THEN 0
    ELSE LET x == a % 2
             y == b % 2
             bit == CASE op = "&" -> IF x = 1 /\ y = 1 THEN 1 ELSE 0
                      [] op = "|" -> IF x = 1 \/ y = 1 THEN 1 ELSE 0
                      [] op = "^" -> IF x # y THEN 1 ELSE 0
         IN bit + 2 * BitOp(op, a \div 2, b \div 2)

IsNum(v) == v[1] \in {"int", "float", "bool"}
\* numeric value in quarter units (for mixed int/float arithmetic and comparisons)
Q(v) == IF v[1] = "float" THEN v[2] ELSE 4 * v[2]
IsF(a, b) == a[1] = "float" \/ b[1] = "float"

Undefined == <<"undefined">>     \* an operation outside the modelled domain
Overflow  == <<"overflow">>      \* a value outside the range this model computes in (TLC integers are 32-bit):
                                 \* the run is skipped by the harness, it is not a verdict
Lim == 67108864                  \* 2^26; quarter-unit floats then stay below 2^28
Fits(n) == n <= Lim /\ n >= -Lim
SafeMul(a, b) == IF a = 0 \/ b = 0 THEN 0
                 ELSE IF Abs(a) <= Lim \div Abs(b) THEN a * b ELSE Lim + 1
IntR(n) == IF Fits(n) THEN <<"int", n>> ELSE Overflow
FltR(q) == IF Fits(q) THEN <<"float", q>> ELSE Overflow

RECURSIVE SafePow(_, _)
SafePow(a, n) == IF n = 0 THEN 1 ELSE LET pw == SafePow(a, n - 1) IN IF Fits(pw) THEN SafeMul(a, pw) ELSE Lim + 1

BinOp(op, a, b) ==
    IF ~(IsNum(a) /\ IsNum(b)) THEN Undefined ELSE
    CASE op = "+"  -> IF IsF(a, b) THEN FltR(Q(a) + Q(b)) ELSE IntR(a[2] + b[2])
      [] op = "-"  -> IF IsF(a, b) THEN FltR(Q(a) - Q(b)) ELSE IntR(a[2] - b[2])
      [] op = "*"  -> IF IsF(a, b)
                      THEN (LET m == SafeMul(Q(a), Q(b)) IN
                            IF ~Fits(m) THEN Overflow ELSE IF m % 4 = 0 THEN FltR(m \div 4) ELSE Undefined)
                      ELSE IntR(SafeMul(a[2], b[2]))
      [] op = "//" -> IF IsF(a, b) \/ b[2] = 0 THEN Undefined ELSE IntV(FloorDiv(a[2], b[2]))
      [] op = "%"  -> IF IsF(a, b) \/ b[2] = 0 THEN Undefined ELSE IntV(PyMod(a[2], b[2]))
      [] op = "/"  -> IF Q(b) = 0 THEN Undefined
                      ELSE IF (4 * Q(a)) % Q(b) = 0 THEN FltR((4 * Q(a)) \div Q(b)) ELSE Undefined
      [] op = "**" -> IF IsF(a, b) \/ b[2] < 0 \/ b[2] > 40 THEN Undefined ELSE IntR(SafePow(a[2], b[2]))
      [] op \in {"&", "|", "^"} ->
            IF a[1] = "bool" /\ b[1] = "bool" THEN <<"bool", BitOp(op, a[2], b[2])>>
            ELSE IF IsF(a, b) \/ a[2] < 0 \/ b[2] < 0 THEN Undefined ELSE IntV(BitOp(op, a[2], b[2]))
      [] op = "<<" -> IF IsF(a, b) \/ b[2] < 0 \/ b[2] > 26 \/ a[2] < 0 THEN Undefined ELSE IntR(SafeMul(a[2], Pow2(b[2])))
      [] op = ">>" -> IF IsF(a, b) \/ b[2] < 0 \/ b[2] > 26 THEN Undefined ELSE IntV(FloorDiv(a[2], Pow2(b[2])))
      [] OTHER -> Undefined

RECURSIVE ValEq(_, _)
ValEq(a, b) ==
    IF IsNum(a) /\ IsNum(b) THEN Q(a) = Q(b)
    ELSE IF a[1] # b[1] THEN FALSE
    ELSE IF a[1] = "tuple" THEN Len(a[2]) = Len(b[2]) /\ \A i \in 1..Len(a[2]) : ValEq(a[2][i], b[2][i])
    ELSE IF a[1] = "none" THEN TRUE
    ELSE IF a[1] = "str" THEN a[2] = b[2]
    ELSE FALSE

CmpOp(op, a, b) ==
    CASE op = "==" -> BoolV(ValEq(a, b))
      [] op = "!=" -> BoolV(~ValEq(a, b))
      [] ~(IsNum(a) /\ IsNum(b)) -> Undefined
      [] op = "<"  -> BoolV(Q(a) < Q(b))
      [] op = "<=" -> BoolV(Q(a) <= Q(b))
      [] op = ">"  -> BoolV(Q(a) > Q(b))
      [] op = ">=" -> BoolV(Q(a) >= Q(b))
      [] OTHER -> Undefined

UnOp(op, a) ==
    CASE op = "not" -> BoolV(~Truthy(a))
      [] ~IsNum(a)  -> Undefined
      [] op = "-"   -> IF a[1] = "float" THEN <<"float", -a[2]>> ELSE IntV(-a[2])
      [] op = "+"   -> IF a[1] = "bool" THEN IntV(a[2]) ELSE a
      [] op = "not" -> BoolV(~Truthy(a))
      [] op = "~"   -> IF a[1] = "float" THEN Undefined ELSE IntV(-a[2] - 1)
      [] OTHER -> Undefined

Builtin(name, args) ==
    CASE name = "int"   -> IF args[1][1] = "float"
                           THEN IntV(IF args[1][2] >= 0 THEN args[1][2] \div 4 ELSE -((-args[1][2]) \div 4))
                           ELSE IntV(args[1][2])
      [] name = "nat"   -> IF args[1][1] = "float" \/ args[1][2] < 0 THEN Undefined ELSE IntV(args[1][2])
      [] name = "float" -> <<"float", Q(args[1])>>
      [] name = "bool"  -> BoolV(Truthy(args[1]))
      [] name = "abs"   -> IF args[1][1] = "float" THEN <<"float", Abs(args[1][2])>> ELSE IntV(Abs(args[1][2]))
      [] name = "len"   -> IF args[1][1] = "ref" THEN IntV(Len(store[args[1][2]]))
                           ELSE IF args[1][1] = "tuple" THEN IntV(Len(args[1][2])) ELSE Undefined
      [] name = "min"   -> IF Q(args[1]) <= Q(args[2]) THEN args[1] ELSE args[2]
      [] name = "max"   -> IF Q(args[1]) >= Q(args[2]) THEN args[1] ELSE args[2]
      [] name = "divmod" -> IF IsF(args[1], args[2]) \/ args[2][2] = 0 THEN Undefined
                            ELSE <<"tuple", <<IntV(FloorDiv(args[1][2], args[2][2])), IntV(PyMod(args[1][2], args[2][2]))>>>>
      [] name = "pow"   -> BinOp("**", args[1], args[2])
      [] OTHER -> Undefined

\* what an event looks like (deep value: arrays are read out of the store)
RECURSIVE Deep(_, _)
Deep(v, s) == CASE v[1] = "ref" -> <<"array", [i \in 1..Len(s[v[2]]) |-> Deep(s[v[2]][i], s)]>>
                [] v[1] = "tuple" -> <<"tuple", [i \in 1..Len(v[2]) |-> Deep(v[2][i], s)]>>
                [] OTHER -> v

---------------------------------------------------------------------------
\* The transition relation.  `Obs(e)` is the guard the trace module puts on events;
\* in this module every event is allowed.
Stuck(why) == /\ st' = "stuck" /\ last' = <<"stuck", why>>
              /\ UNCHANGED <<r, c, k, env, store, out>>

Ret(v) == /\ c' = <<"V", v>> /\ UNCHANGED <<r, k, env, store, out, st, last>>
Go(ctrl, kk) == /\ c' = ctrl /\ k' = kk /\ UNCHANGED <<r, env, store, out, st, last>>

\* ---- Eval: control is an expression ------------------------------------------------------
Eval ==
    /\ st = "run" /\ c[1] = "E"
    /\ LET e == c[2] IN
       CASE e[1] = "Const"   -> Ret(<<e[2], e[3]>>)
         [] e[1] = "NoneC"   -> Ret(None)
         [] e[1] = "Name"    -> IF e[2] \in DOMAIN env THEN Ret(env[e[2]])
                                ELSE IF e[2] \in DOMAIN Funcs THEN Ret(<<"fn", e[2]>>)
                                ELSE Stuck(<<"unbound", e[2]>>)
         [] e[1] = "BinOp"   -> Go(<<"E", e[3]>>, Push(<<"binop", e[2], e[4]>>))
         [] e[1] = "UnaryOp" -> Go(<<"E", e[3]>>, Push(<<"unop", e[2]>>))
         [] e[1] = "BoolOp"  -> Go(<<"E", e[3][1]>>, Push(<<"boolop", e[2], Tail1(e[3])>>))
         [] e[1] = "Compare" -> Go(<<"E", e[2]>>, Push(<<"cmp", e[3], e[4]>>))
         [] e[1] = "IfExp"   -> Go(<<"E", e[2]>>, Push(<<"ifexp", e[3], e[4]>>))
         [] e[1] = "Walrus"  -> Go(<<"E", e[3]>>, Push(<<"walrus", e[2]>>))
         [] e[1] \in {"Tuple", "Array"} ->
                IF e[2] = <<>> THEN Go(<<"V", <<"tuple", <<>>>>>>, Push(<<"mk", <<e[1]>>>>))
                ELSE Go(<<"E", e[2][1]>>, Push(<<"seq", <<e[1]>>, <<>>, Tail1(e[2])>>))
         [] e[1] = "Struct"  ->
                IF e[4] = <<>> THEN /\ store' = Append(store, <<"struct", e[2], e[3], <<>>>>)
                                    /\ c' = <<"V", <<"sref", Len(store) + 1>>>>
                                    /\ UNCHANGED <<r, k, env, out, st, last>>
                ELSE Go(<<"E", e[4][1]>>, Push(<<"seq", <<"Struct", e[2], e[3]>>, <<>>, Tail1(e[4])>>))
         [] e[1] = "Copy"    -> Go(<<"E", e[2]>>, Push(<<"copy">>))
         [] e[1] = "Sub"     -> Go(<<"E", e[2]>>, Push(<<"sub", e[3]>>))
         [] e[1] = "Attr"    -> Go(<<"E", e[2]>>, Push(<<"attr", e[3]>>))
         [] e[1] = "Call"    -> Go(<<"E", e[2]>>, Push(<<"callee", e[3]>>))
         [] e[1] = "Builtin" ->
                IF e[3] = <<>> THEN Stuck(<<"builtin without args", e[2]>>)
                ELSE Go(<<"E", e[3][1]>>, Push(<<"seq", <<"Builtin", e[2]>>, <<>>, Tail1(e[3])>>))
         [] e[1] = "MCall"   -> Go(<<"E", e[2]>>, Push(<<"mcallee", e[3], e[4]>>))     \* obj.meth(args): object first
         [] e[1] = "MustReject" -> Stuck(<<"MustReject", e[2]>>)
         [] OTHER -> Stuck(<<"unknown expression", e[1]>>)

\* ---- call entry ----------------------------------------------------------------------------
EnterCall(fv, args, kk) ==
    IF fv[1] # "fn" \/ fv[2] \notin DOMAIN Funcs THEN Stuck(<<"not callable", fv>>)
    ELSE LET f == Funcs[fv[2]] IN
         IF Len(f.params) # Len(args) THEN Stuck(<<"arity", fv[2]>>)
         ELSE /\ c' = <<"S", f.body>>
              /\ k' = Append(kk, <<"ret", env>>)
              /\ env' = [x \in {f.params[i] : i \in 1..Len(f.params)} |->
                           args[CHOOSE i \in 1..Len(f.params) : f.params[i] = x]]
              /\ UNCHANGED <<r, store, out, st, last>>

Finish(kind, vals) ==       \* all components of a sequence-like expression are evaluated
    CASE kind[1] = "Tuple" -> Go(<<"V", <<"tuple", vals>>>>, Pop)
      [] kind[1] = "Array" -> /\ store' = Append(store, vals)
                           /\ c' = <<"V", <<"ref", Len(store) + 1>>>>
                           /\ k' = Pop
                           /\ UNCHANGED <<r, env, out, st, last>>
      \* struct objects have identity (Python's object semantics): a callee that replaces a field of a borrowed
      \* struct is seen by the caller
      [] kind[1] = "Struct"  -> /\ store' = Append(store, <<"struct", kind[2], kind[3], vals>>)
                             /\ c' = <<"V", <<"sref", Len(store) + 1>>>>
                             /\ k' = Pop
                             /\ UNCHANGED <<r, env, out, st, last>>
      [] kind[1] = "Builtin" -> LET res == Builtin(kind[2], vals) IN
                                IF res = Undefined THEN Stuck(<<"undefined builtin", kind[2], vals>>)
                                ELSE Go(<<"V", res>>, Pop)
      [] kind[1] = "Args"    -> EnterCall(kind[2], vals, Pop)
      [] kind[1] = "MArgs"   -> EnterCall(<<"fn", kind[2]>>, <<kind[3]>> \o vals, Pop)
      [] kind[1] = "PanicArgs" -> Go(<<"P", kind[2]>>, Pop)
      [] OTHER -> Stuck(<<"finish", kind>>)

\* assignment of a value to a target; yields the successor configuration
RECURSIVE AssignEnv(_, _, _)
AssignEnv(e, tgt, v) ==      \* only TName / TTuple: pure environment update
    IF tgt[1] = "TName" THEN Bind(e, tgt[2], v)
    ELSE \* TTuple
         LET n == Len(tgt[2])
             f[i \in 0..n] == IF i = 0 THEN e ELSE AssignEnv(f[i - 1], tgt[2][i], v[2][i])
         IN f[n]
RECURSIVE SimpleTarget(_)
SimpleTarget(tgt) == tgt[1] = "TName" \/ (tgt[1] = "TTuple" /\ \A i \in 1..Len(tgt[2]) : SimpleTarget(tgt[2][i]))
RECURSIVE Shape(_, _)
Shape(tgt, v) == tgt[1] = "TName" \/ (v[1] = "tuple" /\ Len(v[2]) = Len(tgt[2]) /\ \A i \in 1..Len(tgt[2]) : Shape(tgt[2][i], v[2][i]))

\* a value travels to the top frame
Apply ==
    /\ st = "run" /\ c[1] = "V" /\ Len(k) > 0
    /\ LET v == c[2]
           f == Top IN
       CASE f[1] = "binop"  -> Go(<<"E", f[3]>>, Append(Pop, <<"binop2", f[2], v>>))
         [] f[1] = "binop2" -> LET res == BinOp(f[2], f[3], v) IN
                               IF f[3][1] = "sref"          \* user-defined operator of a struct object
                               THEN (IF MethodOf(store, f[3], BinDunder(f[2])) # ""
                                     THEN EnterCall(<<"fn", MethodOf(store, f[3], BinDunder(f[2]))>>, <<f[3], v>>, Pop)
                                     ELSE Stuck(<<"undefined binop", f[2], f[3], v>>))
                               ELSE IF f[2] \in {"//", "%"} /\ f[3][1] \in {"int", "bool"} /\ v[1] \in {"int", "bool"} /\ v[2] = 0
                               THEN Go(<<"P", "division by zero">>, Pop)      \* Python raises, Guppy panics: both stop here
                               ELSE IF res = Overflow THEN Stuck(<<"overflow">>)
                               ELSE IF res = Undefined THEN Stuck(<<"undefined binop", f[2], f[3], v>>) ELSE Go(<<"V", res>>, Pop)
         [] f[1] = "unop"   -> LET res == UnOp(f[2], v) IN
                               IF v[1] = "sref" /\ f[2] # "not"
                               THEN (IF MethodOf(store, v, UnDunder(f[2])) # ""
                                     THEN EnterCall(<<"fn", MethodOf(store, v, UnDunder(f[2]))>>, <<v>>, Pop)
                                     ELSE Stuck(<<"undefined unop", f[2], v>>))
                               ELSE IF res = Undefined THEN Stuck(<<"undefined unop", f[2], v>>) ELSE Go(<<"V", res>>, Pop)
         [] f[1] = "mcallee" ->      \* f = <<"mcallee", method name, argument expressions>>; v = the object
                IF MethodOf(store, v, f[2]) = "" THEN Stuck(<<"no such method", f[2], v>>)
                ELSE IF f[3] = <<>> THEN EnterCall(<<"fn", MethodOf(store, v, f[2])>>, <<v>>, Pop)
                ELSE Go(<<"E", f[3][1]>>, Append(Pop, <<"seq", <<"MArgs", MethodOf(store, v, f[2]), v>>, <<>>, Tail1(f[3])>>))
         [] f[1] = "boolop" ->
                IF (f[2] = "and" /\ ~Truthy(v)) \/ (f[2] = "or" /\ Truthy(v)) \/ f[3] = <<>>
                THEN Go(<<"V", v>>, Pop)                                  \* short circuit / last operand
                ELSE Go(<<"E", f[3][1]>>, Append(Pop, <<"boolop", f[2], Tail1(f[3])>>))
         [] f[1] = "cmp"    -> Go(<<"E", f[3][1]>>, Append(Pop, <<"cmp2", v, f[2], f[3]>>))
         [] f[1] = "cmp2"   ->       \* f = <<"cmp2", left value, ops, comparators>>; v = value of comparators[1]
                LET res == CmpOp(f[3][1], f[2], v) IN
                IF res = Undefined THEN Stuck(<<"undefined compare", f[3][1]>>)
                ELSE IF ~Truthy(res) \/ Len(f[3]) = 1 THEN Go(<<"V", res>>, Pop)
                ELSE \* chain continues: the middle operand's VALUE is reused, it is not evaluated again
                     Go(<<"E", f[4][2]>>, Append(Pop, <<"cmp2", v, Tail1(f[3]), Tail1(f[4])>>))
         [] f[1] = "ifexp"  -> Go(<<"E", IF Truthy(v) THEN f[2] ELSE f[3]>>, Pop)
         [] f[1] = "walrus" -> /\ env' = Bind(env, f[2], v) /\ c' = <<"V", v>> /\ k' = Pop
                               /\ UNCHANGED <<r, store, out, st, last>>
         [] f[1] = "mk"     -> Finish(f[2], <<>>)
         [] f[1] = "seq"    -> IF f[4] = <<>> THEN Finish(f[2], Append(f[3], v))
                               ELSE Go(<<"E", f[4][1]>>, Append(Pop, <<"seq", f[2], Append(f[3], v), Tail1(f[4])>>))
         [] f[1] = "callee" -> IF f[2] = <<>> THEN EnterCall(v, <<>>, Pop)
                               ELSE Go(<<"E", f[2][1]>>, Append(Pop, <<"seq", <<"Args", v>>, <<>>, Tail1(f[2])>>))
         [] f[1] = "copy"   -> IF v[1] = "ref"
                               THEN /\ store' = Append(store, store[v[2]])
                                    /\ c' = <<"V", <<"ref", Len(store) + 1>>>>
                                    /\ k' = Pop
                                    /\ UNCHANGED <<r, env, out, st, last>>
                               ELSE Go(<<"V", v>>, Pop)
         [] f[1] = "sub"    -> Go(<<"E", f[2]>>, Append(Pop, <<"sub2", v>>))
         [] f[1] = "sub2"   ->
                LET b == f[2] IN
                IF v[1] # "int" THEN Stuck(<<"index type", v>>)
                ELSE IF b[1] = "ref"
                     THEN (IF v[2] >= 0 /\ v[2] < Len(store[b[2]]) THEN Go(<<"V", store[b[2]][v[2] + 1]>>, Pop)
                           ELSE Go(<<"P", "index out of bounds">>, Pop))
                ELSE IF b[1] = "tuple"
                     THEN (IF v[2] >= 0 /\ v[2] < Len(b[2]) THEN Go(<<"V", b[2][v[2] + 1]>>, Pop)
                           ELSE Stuck(<<"tuple index", v>>))
                ELSE Stuck(<<"subscript of", b[1]>>)
         [] f[1] = "attr"   ->
                IF v[1] = "sref" /\ \E i \in 1..Len(store[v[2]][3]) : store[v[2]][3][i] = f[2]
                THEN LET sv == store[v[2]] IN Go(<<"V", sv[4][CHOOSE i \in 1..Len(sv[3]) : sv[3][i] = f[2]]>>, Pop)
                ELSE Stuck(<<"attribute", f[2]>>)
         \* ---- statement frames that wait for a value
         [] f[1] = "exprstmt" -> Go(<<"U", <<"next">>>>, Pop)
         [] f[1] = "assign" ->
                LET t == f[2] IN
                IF t[1] \in {"TTuple", "TStar"} /\ v[1] = "ref"   \* unpacking an array: its elements in index order
                THEN Go(<<"V", <<"tuple", store[v[2]]>>>>, k)
                ELSE IF SimpleTarget(t)
                THEN (IF Shape(t, v)
                      THEN /\ env' = AssignEnv(env, t, v) /\ c' = <<"U", <<"next">>>> /\ k' = Pop
                           /\ UNCHANGED <<r, store, out, st, last>>
                      ELSE Stuck(<<"unpack shape", t>>))
                ELSE IF t[1] = "TStar"                       \* a, *r, b = v : r collects the middle as a new list
                THEN (IF v[1] = "tuple" /\ Len(v[2]) >= Len(t[2]) + Len(t[4])
                         /\ SimpleTarget(<<"TTuple", t[2]>>) /\ SimpleTarget(<<"TTuple", t[4]>>) /\ t[3][1] = "TName"
                         /\ Shape(<<"TTuple", t[2]>>, <<"tuple", SubSeq(v[2], 1, Len(t[2]))>>)
                         /\ Shape(<<"TTuple", t[4]>>, <<"tuple", SubSeq(v[2], Len(v[2]) - Len(t[4]) + 1, Len(v[2]))>>)
                      THEN LET nb == Len(t[2])
                               na == Len(t[4])
                               n  == Len(v[2])
                               e1 == AssignEnv(env, <<"TTuple", t[2]>>, <<"tuple", SubSeq(v[2], 1, nb)>>)
                               e2 == AssignEnv(e1, <<"TTuple", t[4]>>, <<"tuple", SubSeq(v[2], n - na + 1, n)>>) IN
                           /\ store' = Append(store, SubSeq(v[2], nb + 1, n - na))
                           /\ env' = Bind(e2, t[3][2], <<"ref", Len(store) + 1>>)
                           /\ c' = <<"U", <<"next">>>> /\ k' = Pop /\ UNCHANGED <<r, out, st, last>>
                      ELSE Stuck(<<"starred unpack shape", t>>))
                ELSE IF t[1] = "TSub" THEN Go(<<"E", t[2]>>, Append(Pop, <<"asub1", t[3], v>>))
                ELSE IF t[1] = "TAttr"
                THEN (IF t[2] \in DOMAIN env /\ env[t[2]][1] = "sref"
                         /\ \E i \in 1..Len(store[env[t[2]][2]][3]) : store[env[t[2]][2]][3][i] = t[3]
                      THEN LET a == env[t[2]][2]
                               s == store[a]
                               j == CHOOSE i \in 1..Len(s[3]) : s[3][i] = t[3] IN
                           /\ store' = [store EXCEPT ![a] = <<"struct", s[2], s[3], [s[4] EXCEPT ![j] = v]>>]
                           /\ c' = <<"U", <<"next">>>> /\ k' = Pop /\ UNCHANGED <<r, env, out, st, last>>
                      ELSE Stuck(<<"attribute target", t>>))
                ELSE IF t[1] = "TMustReject" THEN Stuck(<<"MustReject", t[2]>>)
                ELSE Stuck(<<"target", t[1]>>)
         [] f[1] = "asub1"  -> Go(<<"E", f[2]>>, Append(Pop, <<"asub2", v, f[3]>>))   \* base done, now index
         [] f[1] = "asub2"  ->      \* f = <<"asub2", base value, value to store>>; v = index
                IF f[2][1] # "ref" \/ v[1] # "int" THEN Stuck(<<"subscript assignment", f[2][1]>>)
                ELSE IF v[2] >= 0 /\ v[2] < Len(store[f[2][2]])
                     THEN /\ store' = [store EXCEPT ![f[2][2]][v[2] + 1] = f[3]]
                          /\ c' = <<"U", <<"next">>>> /\ k' = Pop /\ UNCHANGED <<r, env, out, st, last>>
                     ELSE Go(<<"P", "index out of bounds">>, Pop)
         [] f[1] = "aug"    ->      \* f = <<"aug", op, target, old value>>; v = right operand
                LET res == BinOp(f[2], f[4], v) IN
                IF res = Overflow THEN Stuck(<<"overflow">>)
                ELSE IF res = Undefined THEN Stuck(<<"undefined augop", f[2], f[4], v>>)
                ELSE Go(<<"V", res>>, Append(Pop, <<"assign", f[3]>>))
         [] f[1] = "augsub1" ->     \* a[i] op= e : base evaluated, now index
                Go(<<"E", f[3]>>, Append(Pop, <<"augsub2", f[2], v, f[4]>>))
         [] f[1] = "augsub2" ->     \* f = <<"augsub2", op, base, rhs expr>>; v = index
                IF f[3][1] # "ref" \/ v[1] # "int" THEN Stuck(<<"aug subscript", f[3][1]>>)
                ELSE IF v[2] >= 0 /\ v[2] < Len(store[f[3][2]])
                     THEN Go(<<"E", f[4]>>, Append(Pop, <<"augsub3", f[2], f[3], v, store[f[3][2]][v[2] + 1]>>))
                     ELSE Go(<<"P", "index out of bounds">>, Pop)
         [] f[1] = "augsub3" ->     \* f = <<"augsub3", op, base, index, old>>; v = rhs
                LET res == BinOp(f[2], f[5], v) IN
                IF res = Overflow THEN Stuck(<<"overflow">>)
                ELSE IF res = Undefined THEN Stuck(<<"undefined augop", f[2]>>)
                ELSE /\ store' = [store EXCEPT ![f[3][2]][f[4][2] + 1] = res]
                     /\ c' = <<"U", <<"next">>>> /\ k' = Pop /\ UNCHANGED <<r, env, out, st, last>>
         [] f[1] = "if"     -> Go(<<"S", IF Truthy(v) THEN f[2] ELSE f[3]>>, Pop)
         [] f[1] = "whiletest" ->   \* f = <<"whiletest", test, body, orelse>>
                IF Truthy(v) THEN Go(<<"S", f[3]>>, Append(Pop, <<"loop", <<"While", f[2], f[3], f[4]>>>>))
                ELSE Go(<<"S", f[4]>>, Pop)                 \* normal exit: the else clause runs
         [] f[1] = "rangearg" ->    \* f = <<"rangearg", target, body, orelse, vals, rest>>
                IF f[6] # <<>> THEN Go(<<"E", f[6][1]>>, Append(Pop, <<"rangearg", f[2], f[3], f[4], Append(f[5], v), Tail1(f[6])>>))
                ELSE LET a == Append(f[5], v)
                         lo == IF Len(a) = 1 THEN 0 ELSE a[1][2]
                         hi == IF Len(a) = 1 THEN a[1][2] ELSE a[2][2]
                         stp == IF Len(a) = 3 THEN a[3][2] ELSE 1 IN
                     IF stp = 0 THEN Stuck(<<"range step 0">>)
                     ELSE Go(<<"U", <<"iter">>>>, Append(Pop, <<"loop", <<"Range", f[2], f[3], f[4], lo, hi, stp>>>>))
         [] f[1] = "forarr" ->      \* f = <<"forarr", target, body, orelse>>; v = iterable
                IF v[1] = "ref" THEN Go(<<"U", <<"iter">>>>, Append(Pop, <<"loop", <<"Arr", f[2], f[3], f[4], store[v[2]], 1>>>>))
                ELSE IF v[1] = "tuple" THEN Go(<<"U", <<"iter">>>>, Append(Pop, <<"loop", <<"Arr", f[2], f[3], f[4], v[2], 1>>>>))
                ELSE Stuck(<<"iterate", v[1]>>)
         [] f[1] = "return" -> Go(<<"U", <<"return", v>>>>, Pop)
         [] f[1] = "result" -> Go(<<"R", f[2], v>>, Pop)
         [] OTHER -> Stuck(<<"value meets frame", f[1]>>)

\* ---- Exec: control is a statement list -----------------------------------------------------
Exec ==
    /\ st = "run" /\ c[1] = "S"
    /\ IF c[2] = <<>> THEN Go(<<"U", <<"next">>>>, k)
       ELSE LET s == c[2][1]
                kk == IF Len(c[2]) > 1 THEN Push(<<"stmts", Tail1(c[2])>>) ELSE k IN
       CASE s[1] = "Assign"   -> Go(<<"E", s[3]>>, Append(kk, <<"assign", s[2]>>))
         [] s[1] = "Aug"      ->
                IF s[3][1] = "TName"
                THEN (IF s[3][2] \in DOMAIN env THEN Go(<<"E", s[4]>>, Append(kk, <<"aug", s[2], s[3], env[s[3][2]]>>))
                      ELSE Stuck(<<"unbound", s[3][2]>>))
                ELSE IF s[3][1] = "TSub" THEN Go(<<"E", s[3][2]>>, Append(kk, <<"augsub1", s[2], s[3][3], s[4]>>))
                ELSE Stuck(<<"aug target", s[3][1]>>)
         [] s[1] = "ExprStmt" -> Go(<<"E", s[2]>>, Append(kk, <<"exprstmt">>))
         [] s[1] = "Result"   -> Go(<<"E", s[3]>>, Append(kk, <<"result", s[2]>>))
         [] s[1] = "Panic"    -> IF s[3] = <<>> THEN Go(<<"P", s[2]>>, kk)
                                 ELSE Go(<<"E", s[3][1]>>, Append(kk, <<"seq", <<"PanicArgs", s[2]>>, <<>>, Tail1(s[3])>>))
         [] s[1] = "If"       -> Go(<<"E", s[2]>>, Append(kk, <<"if", s[3], s[4]>>))
         [] s[1] = "While"    -> Go(<<"E", s[2]>>, Append(kk, <<"whiletest", s[2], s[3], s[4]>>))
         [] s[1] = "ForRange" -> Go(<<"E", s[3][1]>>, Append(kk, <<"rangearg", s[2], s[4], s[5], <<>>, Tail1(s[3])>>))
         [] s[1] = "ForArr"   -> Go(<<"E", s[3]>>, Append(kk, <<"forarr", s[2], s[4], s[5]>>))
         [] s[1] = "Break"    -> Go(<<"U", <<"break">>>>, kk)
         [] s[1] = "Continue" -> Go(<<"U", <<"continue">>>>, kk)
         [] s[1] = "Return"   -> Go(<<"E", s[2]>>, Append(kk, <<"return">>))
         [] s[1] = "ReturnNone" -> Go(<<"U", <<"return", None>>>>, kk)
         [] s[1] = "Pass"     -> Go(<<"U", <<"next">>>>, kk)
         [] s[1] = "Def"      -> /\ env' = Bind(env, s[2], <<"fn", s[3]>>) /\ c' = <<"U", <<"next">>>> /\ k' = kk
                                 /\ UNCHANGED <<r, store, out, st, last>>
         [] s[1] = "MustReject" -> Stuck(<<"MustReject", s[2]>>)
         [] OTHER -> Stuck(<<"unknown statement", s[1]>>)

\* ---- Unwind: signals travel down the stack ----------------------------------------------------
LoopNext(L, kk) ==   \* start the next iteration of loop descriptor L (the "loop" frame is already popped: kk)
    CASE L[1] = "While" -> Go(<<"E", L[2]>>, Append(kk, <<"whiletest", L[2], L[3], L[4]>>))
      [] L[1] = "Range" ->      \* <<"Range", target, body, orelse, cur, stop, step>>
            IF (L[7] > 0 /\ L[5] < L[6]) \/ (L[7] < 0 /\ L[5] > L[6])
            THEN IF SimpleTarget(L[2])
                 THEN /\ env' = AssignEnv(env, L[2], IntV(L[5]))
                      /\ c' = <<"S", L[3]>>
                      /\ k' = Append(kk, <<"loop", <<"Range", L[2], L[3], L[4], L[5] + L[7], L[6], L[7]>>>>)
                      /\ UNCHANGED <<r, store, out, st, last>>
                 ELSE Stuck(<<"for target">>)
            ELSE Go(<<"S", L[4]>>, kk)
      [] L[1] = "Arr" ->        \* <<"Arr", target, body, orelse, elements, next index>>
            IF L[6] <= Len(L[5])
            THEN IF SimpleTarget(L[2]) /\ Shape(L[2], L[5][L[6]])
                 THEN /\ env' = AssignEnv(env, L[2], L[5][L[6]])
                      /\ c' = <<"S", L[3]>>
                      /\ k' = Append(kk, <<"loop", <<"Arr", L[2], L[3], L[4], L[5], L[6] + 1>>>>)
                      /\ UNCHANGED <<r, store, out, st, last>>
                 ELSE Stuck(<<"for target">>)
            ELSE Go(<<"S", L[4]>>, kk)
      [] OTHER -> Stuck(<<"loop kind", L[1]>>)

Unwind ==
    /\ st = "run" /\ c[1] = "U" /\ Len(k) > 0
    /\ LET sig == c[2]
           f == Top IN
       IF sig[1] = "next" THEN
            CASE f[1] = "stmts" -> Go(<<"S", f[2]>>, Pop)
              [] f[1] = "loop"  -> LoopNext(f[2], Pop)
              [] f[1] = "ret"   -> /\ env' = f[2] /\ c' = <<"V", None>> /\ k' = Pop     \* fell off the end
                                   /\ UNCHANGED <<r, store, out, st, last>>
              [] OTHER -> Stuck(<<"next meets", f[1]>>)
       ELSE IF sig[1] = "iter" THEN
            (IF f[1] = "loop" THEN LoopNext(f[2], Pop) ELSE Stuck(<<"iter meets", f[1]>>))
       ELSE IF sig[1] = "break" THEN
            (IF f[1] = "loop" THEN Go(<<"U", <<"next">>>>, Pop)            \* else clause is skipped
             ELSE IF f[1] = "ret" THEN Stuck(<<"break outside loop">>)
             ELSE Go(c, Pop))
       ELSE IF sig[1] = "continue" THEN
            (IF f[1] = "loop" THEN LoopNext(f[2], Pop)
             ELSE IF f[1] = "ret" THEN Stuck(<<"continue outside loop">>)
             ELSE Go(c, Pop))
       ELSE \* <<"return", v>>
            (IF f[1] = "ret" THEN /\ env' = f[2] /\ c' = <<"V", sig[2]>> /\ k' = Pop
                                  /\ UNCHANGED <<r, store, out, st, last>>
             ELSE Go(c, Pop))

\* ---- observable events ---------------------------------------------------------------------
Emit ==
    /\ st = "run" /\ c[1] = "R"
    /\ out' = out + 1
    /\ last' = <<"result", c[2], Deep(c[3], store)>>
    /\ c' = <<"U", <<"next">>>>
    /\ UNCHANGED <<r, k, env, store, st>>

Panic ==
    /\ st = "run" /\ c[1] = "P"
    /\ out' = out + 1
    /\ last' = <<"panic", c[2]>>
    /\ st' = "panic"
    /\ UNCHANGED <<r, c, k, env, store>>

Halt ==
    /\ st = "run" /\ Len(k) = 0 /\ c[1] \in {"V", "U"}
    /\ st' = "done"
    /\ last' = <<"return", IF c[1] = "V" THEN Deep(c[2], store) ELSE None>>
    /\ UNCHANGED <<r, c, k, env, store, out>>

\* ---- initial state: call the entry function on the run's arguments ----------------------------
RECURSIVE LoadArgs(_, _, _)
\* arguments may contain arrays: <<"array", <<v..>>>> is allocated in the store
LoadArgs(args, i, acc) ==      \* acc = <<values, store>>
    IF i > Len(args) THEN acc
    ELSE IF args[i][1] = "array"
         THEN LoadArgs(args, i + 1, <<Append(acc[1], <<"ref", Len(acc[2]) + 1>>), Append(acc[2], args[i][2])>>)
         ELSE LoadArgs(args, i + 1, <<Append(acc[1], args[i]), acc[2]>>)

InitRun(rr) ==
    LET p == Progs[Runs[rr].prog]
        f == p.funcs[p.entry]
        la == LoadArgs(Runs[rr].args, 1, <<<<>>, <<>>>>) IN
    /\ r = rr
    /\ c = <<"S", f.body>>
    /\ k = <<<<"ret", EmptyEnv>>>>
    /\ env = [x \in {f.params[i] : i \in 1..Len(f.params)} |-> la[1][CHOOSE i \in 1..Len(f.params) : f.params[i] = x]]
    /\ store = la[2]
    /\ out = 0
    /\ st = "run"
    /\ last = <<"start">>

Init == \E rr \in 1..Len(Runs) : InitRun(rr)
Next == Eval \/ Apply \/ Exec \/ Unwind \/ Emit \/ Panic \/ Halt
Spec == Init /\ [][Next]_vars

---------------------------------------------------------------------------
\* Laws of the semantics (checked by TLC on every behaviour explored)
\* the machine is deterministic: at most one action is enabled (TLC: no state has two successors)
NothingAfterPanic == [][st = "panic" => UNCHANGED vars]_vars
OutputMonotone    == [][out' \in {out, out + 1}]_vars
TypeOK == st \in {"run", "done", "panic", "stuck"} /\ out \in Nat
=============================================================================
