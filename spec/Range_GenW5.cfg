SPECIFICATION Spec
CONSTANTS
  NegLo = 16
  Hi = 15
  NegStepLo = 16
  StepHi = 15
  Width = 0
  Static = FALSE
  MaxStatic = 6
  Record = TRUE
INVARIANT PrefixOK
INVARIANT DoneOK
CHECK_DEADLOCK FALSE
