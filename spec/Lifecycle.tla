----------------------------- MODULE Lifecycle -----------------------------
(* Engine lifecycle of one definition handed to @guppy (C02; shared with C01).
   Mirrors guppylang_internals/engine.py  CompilationEngine.check / compile
   (parse -> check -> lower) followed by hugr validation, and error.py: the only
   exception a user program may provoke is GuppyError carrying a Diagnostic.

        Raw --parse--> Parsed --check--> Checked --compile--> Compiled --validate--> Validated
          \               \                 \
           +---------------+-----------------+--> Rejected(located, rendered)

   A step is an EVENT  [stage, out, located, rendered]:
     out = "ok"      the stage succeeded
     out = "reject"  a GuppyError escaped from that stage; `located` = every span of the
                     diagnostic and of its children lies inside registered, decorated source;
                     `rendered` = DiagnosticsRenderer rendered it
     out = "exc" | "invalid" | "timeout"   anything else that can be observed (another
                     exception class, invalid HUGR after acceptance, no termination)
   The automaton has a transition only for "ok" and for "reject" with located /\ rendered:
   there is no Crash state and no way out of Compiled except Validated.
   mode "check": the definition is only checked (struct definitions): ends in Checked.

   Model-checked (Lifecycle.cfg): the automaton over the full event alphabet - every event
   the harness can record is offered in every state; invariants below.               *)
EXTENDS Naturals, Sequences, FiniteSets, TLC

States == {"Raw", "Parsed", "Checked", "Compiled", "Validated", "Rejected"}
Stages == <<"parse", "check", "compile", "validate">>
StageSet == {Stages[i] : i \in 1..4}
Outs == {"ok", "reject", "exc", "invalid", "timeout"}
Modes == {"compile", "check"}

From(stage) == CASE stage = "parse" -> "Raw" [] stage = "check" -> "Parsed"
                 [] stage = "compile" -> "Checked" [] stage = "validate" -> "Compiled"
To(stage) == CASE stage = "parse" -> "Parsed" [] stage = "check" -> "Checked"
               [] stage = "compile" -> "Compiled" [] stage = "validate" -> "Validated"
StagesOf(m) == IF m = "check" THEN {"parse", "check"} ELSE StageSet
\* stages that may reject: everything before the HUGR exists
MayReject(m) == StagesOf(m) \ {"validate"}

\* is event e a transition of the automaton from state s (mode m)?
Accepts(s, m, e) ==
    /\ e.stage \in StagesOf(m)
    /\ s = From(e.stage)
    /\ \/ e.out = "ok"
       \/ e.out = "reject" /\ e.stage \in MayReject(m) /\ e.located /\ e.rendered
After(s, e) == IF e.out = "ok" THEN To(e.stage) ELSE "Rejected"
Final(s, m) == s = "Rejected" \/ s = (IF m = "check" THEN "Checked" ELSE "Validated")

\* ---- the automaton as a state machine over the whole event alphabet ------------------
Events == [stage : StageSet, out : Outs, located : BOOLEAN, rendered : BOOLEAN]
VARIABLES st, mode, hist
vars == <<st, mode, hist>>
Init == st = "Raw" /\ mode \in Modes /\ hist = <<>>
Do(e) == /\ Accepts(st, mode, e)
         /\ st' = After(st, e)
         /\ hist' = Append(hist, e)
         /\ UNCHANGED mode
Next == \E e \in Events : Do(e)
Spec == Init /\ [][Next]_vars

TypeOK == st \in States /\ mode \in Modes
\* a rejection is always a located, rendered user error, and it is the last thing that happens
RejectedIsLocatedUserError ==
    st = "Rejected" <=> (hist # <<>> /\ hist[Len(hist)].out = "reject"
                          /\ hist[Len(hist)].located /\ hist[Len(hist)].rendered)
OnlyLastMayReject == \A i \in 1..Len(hist) : hist[i].out = "reject" => i = Len(hist)
\* nothing but ok / reject ever happens: no crash, no invalid HUGR, no hang
NoOtherOutcome == \A i \in 1..Len(hist) : hist[i].out \in {"ok", "reject"}
\* stages run in order, each at most once
StagesInOrder == \A i \in 1..Len(hist) : hist[i].stage = Stages[i]
\* once the HUGR exists the only way on is a valid HUGR
NoRejectAfterLowering == \A i \in 1..Len(hist) : hist[i].stage = "validate" => hist[i].out = "ok"
\* terminal states have no successor; every non-final state has one
FinalIffStuck == Final(st, mode) <=> ~(\E e \in Events : Accepts(st, mode, e))
=============================================================================
