---------------------------- MODULE Render_Trace ----------------------------
(* Trace validation for C29: renderings recorded from the real DiagnosticsRenderer
   (harness/diag_render.py: case -> Diagnostic -> render_diagnostic -> buffer -> rows)
   are consumed row by row against the items that module Render prescribes for the case.

   Input  IOEnv.VERIF_TRACE : JSON list of [c |-> case, rows |-> <<row>>, exc |-> "" | class]
   One behaviour per chunk of the list; within a chunk the cases are walked in order:
     Load      - take the next case, todo := Render!Items(case)
     RowStep   - the next row is exactly the prescribed row
     MarkStep  - the marker row: prescribed blanks / markers, then the first label line
     LabelStep - a continuation line of the label (indentation free)
     TextStep  - a line of a wrapped message
     Accept    - items and rows exhausted together
     Reject    - none of the above is possible (or the renderer raised): the first
                 unmatched row is printed with the item that was expected; the walk
                 continues with the next case
   Wrapping freedom: a text may be broken after any whole word; every line must consist of
   the next words of the current paragraph, paragraphs end lines, nothing may be left over.
   A token that is not a whole word of the text (id 0 = broken / foreign) never matches. *)
EXTENDS Naturals, Integers, Sequences, FiniteSets, TLC, Json, IOUtils

CONSTANTS MaxLead, OptLead, PrefixCtx, NChunks

R == INSTANCE Render WITH Indents <- {}, Bodies <- {}, MaxLines <- 0, Bases <- {}, FillShape <- <<>>,
                          c <- <<>>, its <- <<>>, rm0 <- 0, seed <- FALSE

Trace == JsonDeserialize(IOEnv.VERIF_TRACE)
N == Len(Trace)
First(kk) == ((kk - 1) * N) \div NChunks + 1
Last(kk)  == (kk * N) \div NChunks

VARIABLES k,        \* chunk
          ci,       \* index of the current case
          st,       \* "load" | "run" | "done"
          todo,     \* items still expected for the current case
          i,        \* next observed row
          p, q,     \* position in the text of the head item: paragraph, words consumed
          nbad      \* rejected cases of this chunk so far
vars == <<k, ci, st, todo, i, p, q, nbad>>

Rows == Trace[ci].rows
It == Head(todo)
O == Rows[i]
HasRow == i <= Len(Rows)

LineFits(paras, ws) ==
    IF paras[p] = <<>> THEN ws = <<>>
    ELSE /\ ws # <<>>
         /\ q + Len(ws) <= Len(paras[p])
         /\ ws = SubSeq(paras[p], q + 1, q + Len(ws))
\* effect of consuming line ws of the head item's text
Consume(paras, ws) ==
    LET endPara == paras[p] = <<>> \/ q + Len(ws) = Len(paras[p])
        p2 == IF endPara THEN p + 1 ELSE p
        q2 == IF endPara THEN 0 ELSE q + Len(ws)
    IN IF p2 > Len(paras)
       THEN /\ todo' = Tail(todo) /\ p' = 1 /\ q' = 0
       ELSE /\ todo' = todo /\ p' = p2 /\ q' = q2

Fresh == p = 1 /\ q = 0

CanRow == todo # <<>> /\ HasRow /\ It.t = "row" /\ O = It.r
CanMark ==
    /\ todo # <<>> /\ HasRow /\ It.t = "mark" /\ Fresh
    /\ O.k = "g" /\ O.gw = It.gw /\ O.no = 0 /\ O.n = It.n /\ O.ch = It.ch
    /\ (It.n > 0 => O.lead = It.lead)
    /\ IF It.paras = <<>> THEN O.txt = <<>> /\ O.gap = 0
       ELSE /\ LineFits(It.paras, O.txt)
            /\ (It.n > 0 /\ O.txt # <<>>) => O.gap = 1      \* one blank between markers and label
CanLabel ==
    /\ todo # <<>> /\ HasRow /\ It.t = "mark" /\ ~Fresh
    /\ O.k = "g" /\ O.gw = It.gw /\ O.no = 0 /\ O.n = 0 /\ O.ch = 0
    /\ LineFits(It.paras, O.txt)
CanText ==
    /\ todo # <<>> /\ HasRow /\ It.t = "text"
    /\ O.k = (IF It.paras[p] = <<>> THEN "blank" ELSE "msg")
    /\ LineFits(It.paras, O.txt)
CanAccept == todo = <<>> /\ ~HasRow

NextCase == /\ IF ci = Last(k) THEN st' = "done" /\ ci' = ci ELSE st' = "load" /\ ci' = ci + 1
            /\ k' = k

Load == /\ st = "load"
        /\ IF Trace[ci].exc # ""
           THEN /\ PrintT(ToJson([bad |-> Trace[ci].c.id, row |-> 0, why |-> "exception", exc |-> Trace[ci].exc]))
                /\ nbad' = nbad + 1 /\ NextCase
                /\ UNCHANGED <<todo, i, p, q>>
           ELSE /\ todo' = R!Items(Trace[ci].c)
                /\ i' = 1 /\ p' = 1 /\ q' = 0 /\ st' = "run"
                /\ UNCHANGED <<k, ci, nbad>>

RowStep == /\ st = "run" /\ CanRow
           /\ todo' = Tail(todo) /\ i' = i + 1
           /\ UNCHANGED <<k, ci, st, p, q, nbad>>
MarkStep == /\ st = "run" /\ CanMark
            /\ IF It.paras = <<>> THEN todo' = Tail(todo) /\ UNCHANGED <<p, q>> ELSE Consume(It.paras, O.txt)
            /\ i' = i + 1
            /\ UNCHANGED <<k, ci, st, nbad>>
LabelStep == /\ st = "run" /\ CanLabel
             /\ Consume(It.paras, O.txt)
             /\ i' = i + 1
             /\ UNCHANGED <<k, ci, st, nbad>>
TextStep == /\ st = "run" /\ CanText
            /\ Consume(It.paras, O.txt)
            /\ i' = i + 1
            /\ UNCHANGED <<k, ci, st, nbad>>
Accept == /\ st = "run" /\ CanAccept
          /\ NextCase
          /\ UNCHANGED <<todo, i, p, q, nbad>>
Reject == /\ st = "run"
          /\ ~(CanRow \/ CanMark \/ CanLabel \/ CanText \/ CanAccept)
          /\ PrintT(ToJson([bad |-> Trace[ci].c.id, row |-> i - 1,
                            why |-> IF todo = <<>> THEN "extra row" ELSE IF ~HasRow THEN "missing rows" ELSE "mismatch",
                            item |-> IF todo = <<>> THEN [t |-> "end"] ELSE It,
                            pos |-> <<p, q>>,
                            obs |-> IF HasRow THEN O ELSE [k |-> "end"]]))
          /\ nbad' = nbad + 1
          /\ NextCase
          /\ UNCHANGED <<todo, i, p, q>>

Init == /\ k \in 1..NChunks /\ ci = First(k)
        /\ st = (IF First(k) <= Last(k) THEN "load" ELSE "done")
        /\ todo = <<>> /\ i = 1 /\ p = 1 /\ q = 0 /\ nbad = 0
Next == Load \/ RowStep \/ MarkStep \/ LabelStep \/ TextStep \/ Accept \/ Reject
Spec == Init /\ [][Next]_vars

\* every chunk is walked to its end (reported once, from the final state)
ChunkDone == st = "done" => PrintT(ToJson([accepted |-> k, upto |-> Last(k), nbad |-> nbad]))
=============================================================================
