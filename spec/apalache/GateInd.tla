------------------------------ MODULE GateInd ------------------------------
(* Unbounded-history argument for the restoration half of C33, checked with Apalache as an
   inductive invariant (the TLC model Gate.tla explores bounded histories only).

   State of guppylang_internals/experimental.py:
     flag   the process-global EXPERIMENTAL_FEATURES_ENABLED
     stack  the `original` fields of the live context-manager objects (innermost last)
     pre    ghost: the flag value observed just before each still-open `with`
     ok     ghost: every Exit so far restored the value observed before its `with`
   Nesting depth is bounded by MaxDepth (Apalache needs bounded sequences); the number of
   steps is NOT bounded: IndInv is shown inductive. *)
EXTENDS Integers, Sequences, Apalache

CONSTANT
    \* @type: Int;
    MaxDepth

VARIABLES
    \* @type: Bool;
    flag,
    \* @type: Seq(Bool);
    stack,
    \* @type: Seq(Bool);
    pre,
    \* @type: Bool;
    ok

vars == <<flag, stack, pre, ok>>

Init == flag = FALSE /\ stack = <<>> /\ pre = <<>> /\ ok = TRUE

\* enable_experimental_features() / disable_experimental_features() used as a plain call
Call(v) == flag' = v /\ UNCHANGED <<stack, pre, ok>>

\* `with enable_experimental_features():`  __init__ saves the current flag, then sets it
Enter(v) == /\ Len(stack) < MaxDepth
            /\ stack' = Append(stack, flag)
            /\ pre' = Append(pre, flag)
            /\ flag' = v
            /\ UNCHANGED ok

\* leaving the block, normally or by an exception: __exit__ restores `original`
Exit == /\ Len(stack) > 0
        /\ flag' = stack[Len(stack)]
        /\ stack' = SubSeq(stack, 1, Len(stack) - 1)
        /\ ok' = (ok /\ stack[Len(stack)] = pre[Len(pre)])
        /\ pre' = SubSeq(pre, 1, Len(pre) - 1)

Next == \/ \E v \in BOOLEAN : Call(v) \/ Enter(v)
        \/ Exit

\* the inductive invariant: the saved originals ARE the values observed before each open block
IndInv == /\ Len(stack) = Len(pre)
          /\ Len(stack) <= MaxDepth
          /\ \A i \in 1..MaxDepth : i <= Len(stack) => stack[i] = pre[i]
          /\ ok

\* arbitrary state satisfying the invariant (for the inductive step)
IndInit == /\ flag \in BOOLEAN
           /\ ok \in BOOLEAN
           /\ stack = Gen(3)
           /\ pre = Gen(3)
           /\ IndInv

Restored == ok
=============================================================================
