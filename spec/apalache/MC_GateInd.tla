---------------------------- MODULE MC_GateInd ----------------------------
EXTENDS Apalache
MaxDepth == 3
VARIABLES
    \* @type: Bool;
    flag,
    \* @type: Seq(Bool);
    stack,
    \* @type: Seq(Bool);
    pre,
    \* @type: Bool;
    ok
INSTANCE GateInd
=============================================================================
