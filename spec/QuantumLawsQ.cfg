SPECIFICATION Spec
CONSTANTS
  NQ = 2
  MaxT = 1
INVARIANT Unitarity
INVARIANT CHDocstringMatrixIsNotUnitary
INVARIANT Paulis
INVARIANT Phases
INVARIANT RotationAnchors
INVARIANT RotationGroup
INVARIANT QSystem1
INVARIANT TwoQubit
INVARIANT TwoQubitAngle
INVARIANT ThreeQubit
INVARIANT Projectors
CHECK_DEADLOCK FALSE
