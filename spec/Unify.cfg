\* exhaustive small model A: tuples, two type variables, start substitutions with <= 2 bindings;
\* all three formulations (algorithm, closure oracle, brute force) compared on every problem
SPECIFICATION Spec
CONSTANTS
  TVarNames = {"a", "b"}
  CVarNames = {}
  TyAtomNames = {"int"}
  NatVals = {}
  UseTup1 = TRUE
  UseTup2 = TRUE
  UseFun = FALSE
  UseArr = FALSE
  Depth = 1
  StartDepth = 1
  MaxStart = 2
  GDepth = 2
  BruteForce = TRUE
INVARIANT Deterministic
INVARIANT SubInv
INVARIANT AgreeClosure
INVARIANT ResultUnifies
INVARIANT AgreeBruteForce
INVARIANT Emit
PROPERTY Termination
CHECK_DEADLOCK FALSE
