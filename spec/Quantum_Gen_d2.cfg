SPECIFICATION Spec
CONSTANTS
  NQ = 3
  Depth = 2
  Level1 = "core"
  Level2 = "core"
  PrepSet = {2}
INVARIANT Emit
CHECK_DEADLOCK FALSE
