----------------------------- MODULE BitVec64 -----------------------------
(* Fixed-width two's-complement machine words, unbounded-looking integers and
   dyadic rationals ("exact floats") on LIMBS, because TLC integers are 32 bit.

   A natural number is a little-endian sequence of digits in base B = 2^LB
   (index 1 = least significant).  A machine word is such a sequence of exactly
   NL digits (width W = NL*LB).  The 64-bit instance is NL = 4, LB = 16 (the four
   16-bit limbs that travel through JSON); the SAME operators are model-checked
   exhaustively at W = 8 (NL = 2, LB = 4) against TLC's native integers in
   BitVecLaws.tla.  LB must be even (multiplication splits digits in halves so
   that no intermediate product exceeds 2^31).

   Layers
     N*   naturals of any length            (add, sub, cmp, shifts, mul, divmod, bits)
     Bv*  W-bit words                       (ring ops, bitwise, shifts, pow)
     Z*   signed integers [neg, mag]        (Python floor division, comparison, wrap)
     D*   dyadic rationals [s, m, e] = (-1)^s * m * 2^e   (exact float arithmetic,
          representability in a binary float with FP significant bits, rounding
          to nearest-even, floor/trunc)
   This is the oracle used by NumOps (C04), Coerce (C16) and Literals (C17).      *)
EXTENDS Integers, Sequences

CONSTANTS NL,      \* limbs per machine word
          LB,      \* bits per limb (even)
          FP       \* significand precision of the float type (53 for IEEE double)

B  == 2^LB
W  == NL * LB
LH == LB \div 2
H  == 2^LH
ML == 2 * NL + 2   \* working length (limbs) of dyadic significands / wide integers
CAP == ML * LB - 2 \* usable bits of a wide natural

Max(a, b) == IF a >= b THEN a ELSE b
Min(a, b) == IF a <= b THEN a ELSE b

(***************************************************************************)
(* N: naturals as digit sequences                                          *)
(***************************************************************************)
\* TLC keeps [i \in S |-> e] as an unevaluated lambda whose body is re-evaluated at
\* every application; concatenation with <<>> converts it to an explicit tuple once.
Tup(f) == f \o <<>>
Dig(x, i) == IF i >= 1 /\ i <= Len(x) THEN x[i] ELSE 0
Zero(L)   == Tup([i \in 1..L |-> 0])
Fit(x, L) == Tup([i \in 1..L |-> Dig(x, i)])            \* x mod B^L, padded
One(L)    == Tup([i \in 1..L |-> IF i = 1 THEN 1 ELSE 0])

RECURSIVE TopDig(_, _)
TopDig(x, i) == IF i = 0 THEN 0 ELSE IF x[i] # 0 THEN i ELSE TopDig(x, i - 1)
NIsZero(x) == TopDig(x, Len(x)) = 0
\* does x fit in L digits
NFits(x, L) == TopDig(x, Len(x)) <= L

RECURSIVE AddGo(_, _, _, _, _, _)
AddGo(x, y, L, i, c, acc) ==
    IF i > L THEN acc
    ELSE LET s == Dig(x, i) + Dig(y, i) + c
         IN  AddGo(x, y, L, i + 1, s \div B, Append(acc, s % B))
NAdd(x, y, L) == AddGo(x, y, L, 1, 0, <<>>)          \* (x + y) mod B^L

RECURSIVE SubGo(_, _, _, _, _, _)
SubGo(x, y, L, i, c, acc) ==
    IF i > L THEN acc
    ELSE LET s == Dig(x, i) - Dig(y, i) - c
         IN  IF s < 0 THEN SubGo(x, y, L, i + 1, 1, Append(acc, s + B))
                      ELSE SubGo(x, y, L, i + 1, 0, Append(acc, s))
NSub(x, y, L) == SubGo(x, y, L, 1, 0, <<>>)          \* (x - y) mod B^L

RECURSIVE CmpGo(_, _, _)
CmpGo(x, y, i) ==
    IF i = 0 THEN 0
    ELSE IF Dig(x, i) > Dig(y, i) THEN 1
    ELSE IF Dig(x, i) < Dig(y, i) THEN -1
    ELSE CmpGo(x, y, i - 1)
NCmp(x, y) == CmpGo(x, y, Max(Len(x), Len(y)))       \* -1, 0, 1

\* (x * 2^k) mod B^L and floor(x / 2^k), k >= 0
NShl(x, k, L) ==
    LET q == k \div LB
        r == k % LB
    IN  Tup([i \in 1..L |-> ((Dig(x, i - q) % 2^(LB - r)) * 2^r) + (Dig(x, i - q - 1) \div 2^(LB - r))])
NShr(x, k, L) ==
    LET q == k \div LB
        r == k % LB
    IN  Tup([i \in 1..L |-> (Dig(x, i + q) \div 2^r) + ((Dig(x, i + q + 1) % 2^r) * 2^(LB - r))])

NBit(x, j) == (Dig(x, (j \div LB) + 1) \div 2^(j % LB)) % 2    \* bit j (0 = lsb)

RECURSIVE DBitLen(_)
DBitLen(d) == IF d = 0 THEN 0 ELSE 1 + DBitLen(d \div 2)
NBitLen(x) == LET t == TopDig(x, Len(x))
              IN  IF t = 0 THEN 0 ELSE (t - 1) * LB + DBitLen(x[t])

RECURSIVE LowDig(_, _)
LowDig(x, i) == IF i > Len(x) THEN 0 ELSE IF x[i] # 0 THEN i ELSE LowDig(x, i + 1)
RECURSIVE DTrail(_)
DTrail(d) == IF d % 2 = 1 THEN 0 ELSE 1 + DTrail(d \div 2)
\* number of trailing zero bits (0 for x = 0)
NTrail(x) == LET t == LowDig(x, 1)
             IN  IF t = 0 THEN 0 ELSE (t - 1) * LB + DTrail(x[t])

\* schoolbook multiplication on half digits: every partial product < 2^LB
Halves(x) == Tup([j \in 1..2 * Len(x) |-> IF j % 2 = 1 THEN x[(j + 1) \div 2] % H
                                                     ELSE x[j \div 2] \div H])
Unhalve(h, L) == Tup([i \in 1..L |-> Dig(h, 2 * i - 1) + H * Dig(h, 2 * i)])
RECURSIVE ColSum(_, _, _, _, _)
ColSum(xh, yh, k, i, hi) ==
    IF i > hi THEN 0 ELSE xh[i] * Dig(yh, k + 1 - i) + ColSum(xh, yh, k, i + 1, hi)
RECURSIVE MulGo(_, _, _, _, _, _)
MulGo(xh, yh, L2, k, c, acc) ==
    IF k > L2 THEN acc
    ELSE LET t == c + ColSum(xh, yh, k, Max(1, k + 1 - Len(yh)), Min(k, Len(xh)))
         IN  MulGo(xh, yh, L2, k + 1, t \div H, Append(acc, t % H))
NMul(x, y, L) == Unhalve(MulGo(Halves(x), Halves(y), 2 * L, 1, 0, <<>>), L)   \* (x*y) mod B^L

\* restoring division, one quotient bit per step: <<floor(x/y), x mod y>>, y # 0
RECURSIVE Shl1Go(_, _, _, _, _)
Shl1Go(x, L, i, c, acc) ==                             \* (2x + c) mod B^L
    IF i > L THEN acc
    ELSE LET s == 2 * Dig(x, i) + c
         IN  Shl1Go(x, L, i + 1, s \div B, Append(acc, s % B))
Shl1In(x, bit, L) == Shl1Go(x, L, 1, bit, <<>>)
RECURSIVE DivGo(_, _, _, _, _, _)
DivGo(x, y, L, j, q, r) ==
    IF j < 0 THEN <<q, Fit(r, L)>>
    ELSE LET r2 == Shl1In(r, NBit(x, j), L + 1)
         IN  \* (q = q forces the argument now: TLC passes operator arguments lazily and
             \*  a chain of W unevaluated quotients would overflow the Java stack)
             IF q = q /\ NCmp(r2, y) >= 0
             THEN DivGo(x, y, L, j - 1, Shl1In(q, 1, L), NSub(r2, y, L + 1))
             ELSE DivGo(x, y, L, j - 1, Shl1In(q, 0, L), r2)
NDivMod(x, y, L) ==
    LET L0 == Max(1, Max(TopDig(x, Len(x)), TopDig(y, Len(y))))     \* work on significant digits only
        qr == DivGo(Fit(x, L0), Fit(y, L0), L0, NBitLen(x) - 1, Zero(L0), Zero(L0 + 1))
    IN  <<Fit(qr[1], L), Fit(qr[2], L)>>

(***************************************************************************)
(* Bv: machine words (exactly NL digits)                                   *)
(***************************************************************************)
IsWord(a)   == Len(a) = NL /\ \A i \in 1..NL : a[i] \in 0..(B - 1)
BvZero      == Zero(NL)
BvOne       == One(NL)
BvAdd(a, b) == NAdd(a, b, NL)
BvSub(a, b) == NSub(a, b, NL)
BvMul(a, b) == NMul(a, b, NL)
BvNeg(a)    == NSub(BvZero, a, NL)
BvNot(a)    == Tup([i \in 1..NL |-> B - 1 - a[i]])
BvIsNeg(a)  == a[NL] >= B \div 2                       \* sign bit of the signed view

AndT == <<<<0, 0>>, <<0, 1>>>>
OrT  == <<<<0, 1>>, <<1, 1>>>>
XorT == <<<<0, 1>>, <<1, 0>>>>
RECURSIVE BitOpD(_, _, _, _)
BitOpD(f, a, b, n) ==
    IF n = 0 THEN 0
    ELSE f[(a % 2) + 1][(b % 2) + 1] + 2 * BitOpD(f, a \div 2, b \div 2, n - 1)
BvAnd(a, b) == Tup([i \in 1..NL |-> BitOpD(AndT, a[i], b[i], LB)])
BvOr(a, b)  == Tup([i \in 1..NL |-> BitOpD(OrT, a[i], b[i], LB)])
BvXor(a, b) == Tup([i \in 1..NL |-> BitOpD(XorT, a[i], b[i], LB)])

\* shifts by a count 0 <= k < W (k is a TLC integer)
BvShl(a, k)  == NShl(a, k, NL)
BvLshr(a, k) == NShr(a, k, NL)
BvAshr(a, k) == IF BvIsNeg(a) THEN BvNot(NShr(BvNot(a), k, NL)) ELSE NShr(a, k, NL)

\* a^e mod 2^W by squaring; e is a natural (digit sequence)
RECURSIVE PowGo(_, _, _, _, _)
PowGo(base, e, j, n, acc) ==
    IF j >= n THEN acc
    ELSE IF base = base /\ acc = acc /\ NBit(e, j) = 1      \* (forces both, see DivGo)
         THEN PowGo(BvMul(base, base), e, j + 1, n, BvMul(acc, base))
         ELSE PowGo(BvMul(base, base), e, j + 1, n, acc)
BvPow(a, e) == PowGo(a, e, 0, NBitLen(e), BvOne)

\* natural TLC integer -> L digits (mod B^L)
NOfInt(n, L) == Tup([i \in 1..L |-> (n \div B^(i - 1)) % B])
\* a natural below 2^30 as a TLC integer
RECURSIVE NToIntGo(_, _)
NToIntGo(x, i) == IF i > Len(x) THEN 0 ELSE x[i] + B * NToIntGo(x, i + 1)
NToInt(x) == NToIntGo(Fit(x, TopDig(x, Len(x))), 1)
\* shift count of a word as TLC int, or -1 when it is not in [0, W)
ShiftCount(a) == IF NBitLen(a) <= 20 /\ NToInt(a) < W THEN NToInt(a) ELSE -1

(***************************************************************************)
(* Z: signed integers  [neg |-> BOOLEAN, mag |-> natural]                  *)
(***************************************************************************)
ZMk(neg, mag) == [neg |-> neg /\ ~NIsZero(mag), mag |-> mag]
ZOfU(a) == ZMk(FALSE, a)                                         \* unsigned view of a word
ZOfS(a) == IF BvIsNeg(a) THEN ZMk(TRUE, BvNeg(a)) ELSE ZMk(FALSE, a)   \* signed view
ZWrap(z) == IF z.neg THEN BvNeg(Fit(z.mag, NL)) ELSE Fit(z.mag, NL)  \* z mod 2^W as a word
ZNeg(z) == ZMk(~z.neg, z.mag)
ZLen(x, y) == Max(Len(x.mag), Len(y.mag))
ZCmp(x, y) ==
    IF x.neg /\ ~y.neg THEN -1
    ELSE IF ~x.neg /\ y.neg THEN 1
    ELSE IF x.neg THEN NCmp(y.mag, x.mag) ELSE NCmp(x.mag, y.mag)
ZAdd(x, y) ==
    LET L == ZLen(x, y) + 1
    IN  IF x.neg = y.neg THEN ZMk(x.neg, NAdd(x.mag, y.mag, L))
        ELSE IF NCmp(x.mag, y.mag) >= 0 THEN ZMk(x.neg, NSub(x.mag, y.mag, L))
        ELSE ZMk(y.neg, NSub(y.mag, x.mag, L))
ZSub(x, y) == ZAdd(x, ZNeg(y))
ZMul(x, y) == ZMk(x.neg # y.neg, NMul(x.mag, y.mag, Len(x.mag) + Len(y.mag)))
\* Python's floor division and modulo: q = floor(x / y), r = x - q*y (sign of r = sign of y)
ZDivMod(x, y) ==
    LET L  == ZLen(x, y) + 1
        qr == NDivMod(Fit(x.mag, L), y.mag, L)
        q0 == qr[1]
        r0 == qr[2]
    IN  IF NIsZero(r0) THEN <<ZMk(x.neg # y.neg, q0), ZMk(FALSE, r0)>>
        ELSE IF x.neg = y.neg THEN <<ZMk(FALSE, q0), ZMk(y.neg, r0)>>
        ELSE <<ZMk(TRUE, NAdd(q0, One(L), L)), ZMk(y.neg, NSub(y.mag, r0, L))>>
\* range tests used for literals and conversions
ZInS(z) == IF z.neg THEN NCmp(z.mag, NShl(One(NL), W - 1, NL + 1)) <= 0     \* -2^(W-1) <= z
                    ELSE NBitLen(z.mag) <= W - 1                           \* z < 2^(W-1)
ZInU(z) == ~z.neg /\ NBitLen(z.mag) <= W

(***************************************************************************)
(* D: dyadic rationals  [s |-> 0..1, m |-> natural, e |-> Int]             *)
(***************************************************************************)
DMk(s, m, e) == IF NIsZero(m) THEN [s |-> 0, m |-> Zero(ML), e |-> 0]
                ELSE LET t == NTrail(m)
                     IN  [s |-> s, m |-> NShr(Fit(m, ML), t, ML), e |-> e + t]   \* m odd
DOfZ(z)   == DMk(IF z.neg THEN 1 ELSE 0, z.mag, 0)
DIsZero(d) == NIsZero(d.m)
DNeg(d)   == DMk(1 - d.s, d.m, d.e)
DAbs(d)   == DMk(0, d.m, d.e)
DBits(d)  == NBitLen(d.m)
\* exactly representable in the float type (exponent range is not modelled: the
\* harness keeps |e| small)
DRepr(d)  == DBits(d) <= FP /\ d.e > -1000 /\ d.e + DBits(d) < 1000
\* can x and y be aligned to a common exponent inside the working length
DAlignable(x, y) ==
    \/ DIsZero(x) \/ DIsZero(y)
    \/ LET e0 == Min(x.e, y.e)
       IN  (x.e - e0) + DBits(x) <= CAP - 1 /\ (y.e - e0) + DBits(y) <= CAP - 1
DAlign(x, y) ==      \* <<mx, my, e0>> with x = mx*2^e0, y = my*2^e0 (magnitudes)
    LET e0 == IF DIsZero(x) THEN y.e ELSE IF DIsZero(y) THEN x.e ELSE Min(x.e, y.e)
    IN  <<IF DIsZero(x) THEN x.m ELSE NShl(x.m, x.e - e0, ML),
          IF DIsZero(y) THEN y.m ELSE NShl(y.m, y.e - e0, ML), e0>>
DCmp(x, y) ==
    LET a == DAlign(x, y)
    IN  ZCmp(ZMk(x.s = 1, a[1]), ZMk(y.s = 1, a[2]))
DEq(x, y)  == DCmp(x, y) = 0
DAdd(x, y) ==
    LET a == DAlign(x, y)
        z == ZAdd(ZMk(x.s = 1, a[1]), ZMk(y.s = 1, a[2]))
    IN  DMk(IF z.neg THEN 1 ELSE 0, z.mag, a[3])
DSub(x, y) == DAdd(x, DNeg(y))
DMulOk(x, y) == DBits(x) + DBits(y) <= CAP
DMul(x, y) == DMk(IF x.s = y.s THEN 0 ELSE 1, NMul(x.m, y.m, ML), x.e + y.e)
\* x / y (y # 0) is dyadic iff the odd significand of y divides that of x
DDivExact(x, y) == NIsZero(NDivMod(x.m, y.m, ML)[2])
DDiv(x, y) == DMk(IF x.s = y.s THEN 0 ELSE 1, NDivMod(x.m, y.m, ML)[1], x.e - y.e)
\* integer part
DIntOk(d) == d.e <= 0 \/ d.e + DBits(d) <= CAP
DFloorZ(d) ==
    IF d.e >= 0 THEN ZMk(d.s = 1, NShl(d.m, d.e, ML))
    ELSE LET q == IF -d.e >= ML * LB THEN Zero(ML) ELSE NShr(d.m, -d.e, ML)   \* d.m odd: fraction # 0
         IN  IF d.s = 1 THEN ZMk(TRUE, NAdd(q, One(ML), ML)) ELSE ZMk(FALSE, q)
DTruncZ(d) ==
    IF d.e >= 0 THEN ZMk(d.s = 1, NShl(d.m, d.e, ML))
    ELSE ZMk(d.s = 1, IF -d.e >= ML * LB THEN Zero(ML) ELSE NShr(d.m, -d.e, ML))
DCeilZ(d) == ZNeg(DFloorZ(DNeg(d)))
\* floor(x / y) as an integer, y # 0, DAlignable(x, y)
DFloorDivZ(x, y) ==
    LET a == DAlign(x, y)
    IN  ZDivMod(ZMk(x.s = 1, a[1]), ZMk(y.s = 1, a[2]))[1]
\* numerator of x/y after alignment (its bit length bounds the rounding error of x/y)
DQuotNumBits(x, y) == NBitLen(DAlign(x, y)[1])
\* round to nearest, ties to even, to FP significant bits
DRound(d) ==
    LET bl == DBits(d)
    IN  IF bl <= FP THEN d
        ELSE LET sh   == bl - FP
                 q    == NShr(d.m, sh, ML)
                 rem  == NSub(d.m, NShl(q, sh, ML), ML)
                 half == NShl(One(ML), sh - 1, ML)
                 c    == NCmp(rem, half)
                 up   == c > 0 \/ (c = 0 /\ q[1] % 2 = 1)
             IN  DMk(d.s, IF up THEN NAdd(q, One(ML), ML) ELSE q, d.e + sh)
\* x^n for a small TLC natural n
DPowOk(x, n) == n * DBits(x) <= CAP
RECURSIVE DPowGo(_, _, _)
DPowGo(x, n, acc) == IF n = 0 THEN acc
                     ELSE IF acc = acc THEN DPowGo(x, n - 1, DMul(acc, x))      \* (forces acc, see DivGo)
                     ELSE acc
DPow(x, n) == DPowGo(x, n, DMk(0, One(ML), 0))
=============================================================================
