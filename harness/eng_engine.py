"""C11 replay: run TLC-generated histories of public engine calls in forked interpreter sessions.

All histories are merged into a prefix tree.  A pristine parent (guppylang imported, pool module
defined, nothing ever checked or compiled) forks one child per tree node: the child performs the
node's call (eng_session.step), writes the observation, then forks its own children for the
extensions - so every history runs in one interpreter session that has executed exactly its own
prefix, and shared prefixes are executed once.
"""
from __future__ import annotations

import json
import os
import subprocess
import sys
import tempfile

import eng_session as S

OPSEP = ":"


def label(step) -> str:
    return f"{step['op']}{OPSEP}{step['d']}"


def build_trie(histories) -> dict:
    root: dict = {}
    for h in histories:
        node = root
        for st in h:
            node = node.setdefault(label(st), {})
    return root


def _explore(path: list, node: dict, out) -> None:
    for lab, child in node.items():
        pid = os.fork()
        if pid == 0:
            code = 0
            try:
                op, d = lab.split(OPSEP, 1)
                r = S.step(op, d)
                r["path"] = path + [lab]
                out.write(json.dumps(r) + "\n")
                out.flush()
                _explore(path + [lab], child, out)
            except BaseException as e:  # noqa: BLE001
                try:
                    out.write(json.dumps({"path": path + [lab], "machinery": f"{type(e).__name__}: {e}"}) + "\n")
                    out.flush()
                except Exception:  # noqa: BLE001
                    pass
                code = 3
            finally:
                os._exit(code)
        _, status = os.waitpid(pid, 0)
        if status != 0:
            out.write(json.dumps({"path": path + [lab], "machinery": f"child exit status {status}"}) + "\n")
            out.flush()


def subtree_job(job: dict) -> str:
    """job = {"first": label, "node": subtree below it, "out": path}; runs in a pristine pool worker."""
    S.setup()
    with open(job["out"], "a") as out:
        _explore([], {job["first"]: job["node"]}, out)
    return job["out"]


def run_histories(histories, workdir: str, procs: int) -> dict:
    """Returns {tuple(path labels): observation}.

    The sessions are forked directly from this process (not from the shared worker pool, whose
    workers are created once per process and would not be clones of *this* interpreter state)."""
    S.setup()  # parent: define the pool before forking, never execute a step here
    trie = build_trie(histories)

    def size(node):
        return 1 + sum(size(c) for c in node.values())

    # one job per first call; a first call with a large subtree is split into several jobs (each
    # repeats the first call in its own session) so that no driver process gets a long serial chain
    total = sum(size(n) for n in trie.values())
    limit = max(8, total // max(1, procs))
    parts = []
    for lab, node in sorted(trie.items()):
        kids = sorted(node.items())
        if size(node) <= limit or len(kids) < 2:
            parts.append((lab, node))
            continue
        k = min(len(kids), -(-size(node) // limit))
        for c in range(k):
            parts.append((lab, dict(kids[c::k])))
    jobs = [{"first": lab, "node": node, "out": os.path.join(workdir, f"engine_obs_{os.getpid()}_{i}.jsonl")}
            for i, (lab, node) in enumerate(parts)]
    for j in jobs:
        if os.path.exists(j["out"]):
            os.unlink(j["out"])
    sys.stdout.flush()
    sys.stderr.flush()
    procs = max(1, min(procs, len(jobs)))
    # longest-processing-time-first assignment of subtrees to driver processes
    loads, groups = [0] * procs, [[] for _ in range(procs)]
    for j in sorted(jobs, key=lambda j: -size(j["node"])):
        w = loads.index(min(loads))
        groups[w].append(j)
        loads[w] += size(j["node"])
    pids = []
    for w in range(procs):
        pid = os.fork()
        if pid == 0:
            code = 0
            try:
                for j in groups[w]:
                    subtree_job(j)
            except BaseException:  # noqa: BLE001
                code = 4
            finally:
                os._exit(code)
        pids.append(pid)
    failed = [pid for pid in pids if os.waitpid(pid, 0)[1] != 0]
    obs = {}
    for j in jobs:
        if os.path.exists(j["out"]):
            for line in open(j["out"]):
                r = json.loads(line)
                obs[tuple(r["path"])] = r
            os.unlink(j["out"])
    if failed:
        raise RuntimeError(f"{len(failed)} session driver processes failed")
    return obs


def references(ops, procs: int) -> dict:
    """reference(op, d) for every (op, d), `procs` fresh interpreter processes at a time."""
    cmd0 = [sys.executable, os.path.join(os.path.dirname(os.path.abspath(__file__)), "eng_session.py")]
    out, pending, running = {}, list(ops), []
    while pending or running:
        while pending and len(running) < procs:
            o = pending.pop(0)
            running.append((o, subprocess.Popen(cmd0 + list(o), stdout=subprocess.PIPE, stderr=subprocess.PIPE, text=True)))
        o, p = running.pop(0)
        so, se = p.communicate()
        line = next((l for l in so.splitlines() if l.startswith("REF ")), None)
        if line is None:
            raise RuntimeError(f"reference process failed for {o}:\n{se[-1500:]}")
        out[tuple(o)] = json.loads(line[4:])
    return out


def norm_expected(st: dict) -> dict:
    return {"outcome": st["outcome"], "parsed": sorted(st["parsed"]), "checked": sorted(st["checked"]),
            "compiled": sorted(st["compiled"]), "worklist": sorted(st["worklist"]), "store": st["store"]}


def norm_observed(r: dict) -> dict:
    s = r["state"]
    return {"outcome": r["outcome"], "parsed": sorted(s["parsed"]), "checked": sorted(s["checked"]),
            "compiled": sorted(s["compiled"]), "worklist": sorted(s["worklist"]), "store": s["store"]}


def reference(op: str, d: str, want_text: bool = False) -> dict:
    """The same call as the only call of a fresh interpreter process."""
    env = dict(os.environ)
    cmd = [sys.executable, os.path.join(os.path.dirname(os.path.abspath(__file__)), "eng_session.py"), op, d]
    if want_text:
        cmd.append("text")
    p = subprocess.run(cmd, capture_output=True, text=True, env=env)
    for l in p.stdout.splitlines():
        if l.startswith("REF "):
            return json.loads(l[4:])
    raise RuntimeError(f"reference process failed for {op} {d}:\n{p.stderr[-1500:]}")


def reference_job(job):
    return reference(job[0], job[1])


def session_text(hist_labels: list) -> dict:
    """Re-run one history in a fresh process and return the canonical text of its last step (diagnostics)."""
    code = ("import json,sys,eng_session as S\n"
            "labs=json.loads(sys.argv[1])\n"
            "for l in labs[:-1]:\n"
            "    S.step(*l.split(':',1))\n"
            "r=S.step(*labs[-1].split(':',1), want_text=True)\n"
            "print('REF '+json.dumps(r))\n")
    p = subprocess.run([sys.executable, "-c", code, json.dumps(hist_labels)], capture_output=True, text=True)
    for l in p.stdout.splitlines():
        if l.startswith("REF "):
            return json.loads(l[4:])
    raise RuntimeError(p.stderr[-1500:])
