"""C11 replay: run TLC-generated histories of public engine calls in forked interpreter sessions.

All histories are merged into a prefix tree.  A pristine parent (guppylang imported, pool module
defined, nothing ever checked or compiled) forks one child per tree node: the child performs the
node's call (eng_session.step), writes the observation, then forks its own children for the
extensions - so every history runs in one interpreter session that has executed exactly its own
prefix, and shared prefixes are executed once.
"""
from __future__ import annotations

import json
import os
import subprocess
import sys
import tempfile

import eng_session as S

OPSEP = ":"


def label(step) -> str:
    return f"{step['op']}{OPSEP}{step['d']}"


def build_trie(histories) -> dict:
    root: dict = {}
    for h in histories:
        node = root
        for st in h:
            node = node.setdefault(label(st), {})
    return root


def _explore(path: list, node: dict, out) -> None:
    for lab, child in node.items():
        pid = os.fork()
        if pid == 0:
            code = 0
            try:
                op, d = lab.split(OPSEP, 1)
                r = S.step(op, d)
                r["path"] = path + [lab]
                out.write(json.dumps(r) + "\n")
                out.flush()
                _explore(path + [lab], child, out)
            except BaseException as e:  # noqa: BLE001
                try:
                    out.write(json.dumps({"path": path + [lab], "machinery": f"{type(e).__name__}: {e}"}) + "\n")
                    out.flush()
                except Exception:  # noqa: BLE001
                    pass
                code = 3
            finally:
                os._exit(code)
        _, status = os.waitpid(pid, 0)
        if status != 0:
            out.write(json.dumps({"path": path + [lab], "machinery": f"child exit status {status}"}) + "\n")
            out.flush()


def subtree_job(job: dict) -> str:
    """job = {"first": label, "node": subtree below it, "out": path}; runs in a pristine pool worker."""
    S.setup()
    with open(job["out"], "a") as out:
        _explore([], {job["first"]: job["node"]}, out)
    return job["out"]


def run_histories(histories, workdir: str, procs: int) -> dict:
    """Returns {tuple(path labels): observation}."""
    import pool

    S.setup()  # parent: define the pool before forking, never execute a step here
    trie = build_trie(histories)
    jobs = []
    for i, (lab, node) in enumerate(sorted(trie.items())):
        jobs.append({"first": lab, "node": node, "out": os.path.join(workdir, f"engine_obs_{os.getpid()}_{i}.jsonl")})
    # bigger subtrees first
    pool.map_jobs(subtree_job, jobs, procs=procs, chunksize=1, maxtasks=None)
    obs = {}
    for j in jobs:
        if os.path.exists(j["out"]):
            for line in open(j["out"]):
                r = json.loads(line)
                obs[tuple(r["path"])] = r
            os.unlink(j["out"])
    return obs


def norm_expected(st: dict) -> dict:
    return {"outcome": st["outcome"], "parsed": sorted(st["parsed"]), "checked": sorted(st["checked"]),
            "compiled": sorted(st["compiled"]), "worklist": sorted(st["worklist"]), "store": st["store"]}


def norm_observed(r: dict) -> dict:
    s = r["state"]
    return {"outcome": r["outcome"], "parsed": sorted(s["parsed"]), "checked": sorted(s["checked"]),
            "compiled": sorted(s["compiled"]), "worklist": sorted(s["worklist"]), "store": s["store"]}


def reference(op: str, d: str, want_text: bool = False) -> dict:
    """The same call as the only call of a fresh interpreter process."""
    env = dict(os.environ)
    cmd = [sys.executable, os.path.join(os.path.dirname(os.path.abspath(__file__)), "eng_session.py"), op, d]
    if want_text:
        cmd.append("text")
    p = subprocess.run(cmd, capture_output=True, text=True, env=env)
    for l in p.stdout.splitlines():
        if l.startswith("REF "):
            return json.loads(l[4:])
    raise RuntimeError(f"reference process failed for {op} {d}:\n{p.stderr[-1500:]}")


def reference_job(job):
    return reference(job[0], job[1])


def session_text(hist_labels: list) -> dict:
    """Re-run one history in a fresh process and return the canonical text of its last step (diagnostics)."""
    code = ("import json,sys,eng_session as S\n"
            "labs=json.loads(sys.argv[1])\n"
            "for l in labs[:-1]:\n"
            "    S.step(*l.split(':',1))\n"
            "r=S.step(*labs[-1].split(':',1), want_text=True)\n"
            "print('REF '+json.dumps(r))\n")
    p = subprocess.run([sys.executable, "-c", code, json.dumps(hist_labels)], capture_output=True, text=True)
    for l in p.stdout.splitlines():
        if l.startswith("REF "):
            return json.loads(l[4:])
    raise RuntimeError(p.stderr[-1500:])
