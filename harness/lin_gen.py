"""C06/C01: seeded generators of programs of the linear core fragment (see lin_ast.py).

Three sources, all deterministic in the seed:
  * `gen_program`  - random structured programs, *guided* towards the accept/reject boundary:
    the generator tracks which leaf places hold a value and usually emits enabled actions and
    repairs joins / loop ends / exits with fix-up statements; with small probabilities it
    picks a disabled action or skips a repair.
  * `mutate`       - near-miss mutants of a program (delete / duplicate / move a statement,
    redirect a place, flip consume<->borrow, insert a jump).
  * `enumerate_small` - every program of a small grammar up to a size bound (no randomness).
The generator's own bookkeeping is only a heuristic - the VERDICT of every program comes from
spec/Linearity.tla evaluated by TLC.
"""
from __future__ import annotations

import itertools
import random

import lin_ast as A
from lin_ast import FUNCS, Q

QVARS = ["q", "p", "r"]
# (names must not collide with the prelude: `s`, `t` are gates of guppylang.std.quantum)
AGGVARS = [("tu", A.T2), ("sv", A.S), ("n", A.N), ("u", A.TS)]


def P(path):
    return {"e": "place", "p": list(path)}


def C(f, *args):
    return {"e": "call", "f": f, "args": list(args)}


NEW = {"e": "new"}
NONE = {"e": "none"}


def ctor(ty, els):
    return {"e": "tuple" if ty["k"] == "tuple" else "struct", "name": ty["name"], "els": els}


class St:
    """generator bookkeeping: which leaves hold a value, which roots are bound, which classical
    variables (rich mode) are definitely assigned"""

    def __init__(self, hold, bound, cb=()):
        self.hold, self.bound, self.cb = hold, bound, set(cb)

    def copy(self):
        return St(dict(self.hold), set(self.bound), set(self.cb))


class Gen:
    def __init__(self, rng: random.Random, noise=0.03, nofix=0.05, maxdepth=3, size=(3, 7), aggs=True, rich=False):
        self.rng, self.noise, self.nofix, self.maxdepth, self.size = rng, noise, nofix, maxdepth, size
        self.aggs, self.rich = aggs, rich
        self.loopdepth = 0

    # ------------------------------------------------------------------ program skeleton
    def program(self, pid: int) -> dict:
        rng = self.rng
        vars_: dict = {}
        params = []
        nq = rng.choice([1, 2, 2, 3])
        names = [(n, Q) for n in QVARS[:nq]]
        if self.aggs:
            na = rng.choice([0, 1, 1, 2])
            names += rng.sample(AGGVARS + ([("m", A.M), ("a", A.ARR), ("a", A.ARR)] if self.rich else []), na)
            names = list(dict(names).items())
        for n, ty in names:
            kind = "local"
            if rng.random() < 0.3:
                kind = rng.choice(["owned", "borrowed"])
                params.append(n)
            vars_[n] = {"ty": ty, "kind": kind}
        rty = None
        if rng.random() < 0.4:
            rty = rng.choice([Q, Q] + [v["ty"] for v in vars_.values()])
        self.prog = {"id": pid, "vars": vars_, "params": params, "bparams": ["b"], "ret": "lin" if rty else "none",
                     "rty": rty, "body": []}
        if self.rich:
            self.prog.update(rich=True, defined=rng.random() < 0.6, cret=rng.random() < 0.3)
        self.places = {}  # type name -> [paths]
        self.leaves = {}
        for n, v in vars_.items():
            self._collect([n], v["ty"])
            self.leaves[n] = A.leaves([n], v["ty"])
        hold = {l: vars_[l[0]]["kind"] != "local" for n in vars_ for l in self.leaves[n]}
        st = St(hold, {n for n in vars_ if vars_[n]["kind"] != "local"})
        self.exit_hold = {l: vars_[l[0]]["kind"] == "borrowed" for l in hold}
        body, term = self.block(st, 0, rng.randint(*self.size), None)
        if not term:
            body += self.ret_stmts(st, final=True)
        self.prog["body"] = body
        strip_dead(body)
        return A.number(self.prog)

    def _collect(self, path, ty):
        self.places.setdefault(A.tname(ty), []).append(tuple(path))
        if ty["k"] != "qubit":
            for n, t in zip(ty["fn"], ty["el"]):
                self._collect(path + [n], t)

    # ------------------------------------------------------------------ place predicates
    def under(self, path):
        return [l for l in self.leaves[path[0]] if l[: len(path)] == tuple(path)]

    def holding(self, st, path):
        return all(st.hold[l] for l in self.under(path))

    def empty(self, st, path):
        return not any(st.hold[l] for l in self.under(path))

    def kind(self, path):
        return self.prog["vars"][path[0]]["kind"]

    def can_own(self, st, path):
        if self.kind(path) == "borrowed" and (len(path) == 1 or not self.assignable_syntax(path)):
            return False  # tuple elements of a borrowed parameter cannot be put back
        return self.holding(st, path)

    def assignable_syntax(self, path):
        return not any(c.isdigit() for c in path[1:])

    def can_assign(self, st, path):
        return (self.assignable_syntax(path) and not (self.kind(path) == "borrowed" and len(path) == 1)
                and self.empty(st, path) and (len(path) == 1 or path[0] in st.bound))

    def set_hold(self, st, path, v):
        for l in self.under(path):
            st.hold[l] = v
        if v and len(path) == 1:
            st.bound.add(path[0])

    def consume_f(self, ty):
        n = A.tname(ty)
        if n == "Q":
            return self.rng.choice(["discard", "discard", "measure"])
        if n == "ARR":
            return self.rng.choice(["discard_array", "measure_array"])
        return "c_" + n

    def noisy(self):
        return self.rng.random() < self.noise

    # ------------------------------------------------------------------ expressions
    def pick_place(self, st, ty, pred, avoid=()):
        cands = [p for p in self.places.get(A.tname(ty), []) if p not in avoid]
        if not cands:
            return None
        if self.noisy():
            return self.rng.choice(cands)
        good = [p for p in cands if pred(st, p)]
        return self.rng.choice(good) if good else None

    def val(self, st, ty, depth=0, noborrowed=False):
        """an expression producing an owned value of type ty; marks moved places"""
        rng = self.rng
        own = (lambda s, p: self.can_own(s, p) and not (noborrowed and self.kind(p) == "borrowed"))
        opts = ["place"] * 5
        if A.tname(ty) == "Q":
            opts += ["new"] * 3 + (["fo"] + ([] if noborrowed else ["fm"]) + (["nf"] if self.rich else []) if depth < 2 else [])
        elif A.tname(ty) == "ARR":
            opts += ["make"] * 2 + ["mkarr"]
        elif A.tname(ty) == "M":
            opts += ["ctor"] * 3
        else:
            opts += ["ctor"] * 3 + ["make"]
        if A.tname(ty) == "Q" and depth < 2 and not self.rich and self.noisy():
            # component of an unnamed aggregate: the sibling is dropped (always a violation)
            agg = rng.choice([A.S, A.T2])
            # (the aggregate must not be a place: `s.a` of a variable s is an ordinary place)
            inner = (C("m_" + agg["name"]) if rng.random() < 0.4
                     else ctor(agg, [self.val(st, t, depth + 1, noborrowed) for t in agg["el"]]))
            return {"e": "proj", "of": inner, "c": rng.choice(agg["fn"])}
        if self.rich and depth < 2 and rng.random() < 0.12:
            return C("gid", self.val(st, ty, depth + 1, noborrowed))
        if self.rich and depth < 2 and A.tname(ty) == "T2" and rng.random() < 0.3:
            return C("gpair", self.val(st, Q, depth + 1, noborrowed), self.val(st, Q, depth + 1, noborrowed))
        for _ in range(4):
            o = rng.choice(opts)
            if o == "nf":
                return C("nf", self.val(st, Q, depth + 1, noborrowed))
            if o == "mkarr":
                return C("mk_ARR", self.val(st, Q, depth + 1, noborrowed), self.val(st, Q, depth + 1, noborrowed))
            if o == "place":
                p = self.pick_place(st, ty, own)
                if p is None:
                    continue
                self.set_hold(st, p, False)
                return P(p)
            if o == "new":
                return NEW
            if o == "make":
                return C("m_" + ty["name"])
            if o == "ctor":
                return self.mk_ctor(st, ty, [self.val(st, t, depth + 1, noborrowed) for t in ty["el"]])
            if o == "fo":
                return C("fo", self.val(st, Q, depth + 1, noborrowed))
            if o == "fm":
                b = self.pick_place(st, Q, self.holding)
                if b is None:
                    continue
                # the lent place is unavailable while the other argument is evaluated
                self.set_hold(st, b, False)
                a = self.val(st, Q, depth + 1, noborrowed)
                self.set_hold(st, b, True)
                return C("fm", P(b), a)
        return self.fresh(ty)

    def mk_ctor(self, st, ty, els):
        e = ctor(ty, els)
        if ty.get("clsfields"):
            e["clsargs"] = [self.int_expr(st) for _ in ty["clsfields"]]
        return e

    def fresh(self, ty, st=None):
        n = A.tname(ty)
        if n == "Q":
            return self.rng.choice([NEW, NEW, C("fo", NEW)])
        if n == "ARR":
            return self.rng.choice([C("m_ARR"), C("mk_ARR", NEW, NEW)])
        if n != "M" and self.rng.random() < 0.3:
            return C("m_" + ty["name"])
        return self.mk_ctor(st, ty, [self.fresh(t, st) for t in ty["el"]])

    def cond(self, st):
        if self.rng.random() < 0.15:
            p = self.pick_place(st, Q, self.can_own)
            if p is not None:
                self.set_hold(st, p, False)
                return C("measure", P(p))
        if self.rich:
            return {"e": "opaque", "v": self.bool_expr(st)}
        return {"e": "opaque", "v": self.rng.choice(["", "", "b"])}

    # ------------------------------------------------------------------ simple statements
    def simple(self, st):
        rng = self.rng
        kinds = ["alloc"] * 4 + ["consume"] * 4 + ["borrow"] * 4 + ["move"] * 3 + ["call"] * 2 + ["unpack", "swap",
                                                                                                  "build", "build"]
        for _ in range(6):
            k = rng.choice(kinds)
            s = getattr(self, "s_" + k)(st)
            if s is not None:
                return s
        return {"k": "pass"}

    def any_type(self):
        return A.TYPES[self.rng.choice(list(self.places))]

    def s_alloc(self, st):
        p = self.pick_place(st, Q, self.can_assign)
        if p is None or (not self.assignable_syntax(p)):
            return None
        v = self.rng.choice([NEW, NEW, NEW, C("fo", NEW)])
        self.set_hold(st, p, True)
        return {"k": "assign", "tgts": [list(p)], "val": v}

    def s_build(self, st):
        ty = self.any_type()
        v = self.val(st, ty)
        p = self.pick_place(st, ty, self.can_assign)
        if p is None or not self.assignable_syntax(p):
            # nowhere to put it: consume it instead
            return {"k": "expr", "val": C(self.consume_f(ty), v)}
        self.set_hold(st, p, True)
        return {"k": "assign", "tgts": [list(p)], "val": v}

    def s_consume(self, st):
        ty = self.any_type()
        p = self.pick_place(st, ty, self.can_own)
        if p is None:
            return None
        self.set_hold(st, p, False)
        return {"k": "expr", "val": C(self.consume_f(ty), P(p))}

    def s_borrow(self, st):
        ty = self.any_type()
        p = self.pick_place(st, ty, self.holding)
        if p is None:
            return None
        if self.rich and self.rng.random() < 0.12:
            return {"k": "expr", "val": C(self.rng.choice(["gb", "gb", "gct"]), P(p))}
        if A.tname(ty) == "ARR":
            return {"k": "expr", "val": C(self.rng.choice(["h_a0", "cx_a"]), P(p))}
        if ty["k"] != "qubit":
            return {"k": "expr", "val": C("b_" + ty["name"], P(p))}
        if self.rich and self.rng.random() < 0.15:
            return {"k": "expr", "val": C(self.rng.choice(["ct", "ct3"]), P(p))}
        if self.rng.random() < 0.35:
            st2 = st.copy()
            self.set_hold(st2, p, False)
            p2 = self.pick_place(st2, Q, self.holding)
            if p2 is not None:
                return {"k": "expr", "val": C("cx", P(p), P(p2))}
        return {"k": "expr", "val": C("h", P(p))}

    def s_move(self, st):
        ty = self.any_type()
        src = self.pick_place(st, ty, self.can_own)
        if src is None:
            return None
        self.set_hold(st, src, False)
        dst = self.pick_place(st, ty, self.can_assign)
        if dst is None or not self.assignable_syntax(dst):
            self.set_hold(st, src, True)
            return None
        self.set_hold(st, dst, True)
        return {"k": "assign", "tgts": [list(dst)], "val": P(src)}

    def s_call(self, st):
        v = self.rng.choice([lambda: C("fo", self.val(st, Q, 1)), lambda: self.val(st, Q, 0)])()
        dst = self.pick_place(st, Q, self.can_assign)
        if dst is None or not self.assignable_syntax(dst):
            return {"k": "expr", "val": C("discard", v)}
        self.set_hold(st, dst, True)
        return {"k": "assign", "tgts": [list(dst)], "val": v}

    def s_unpack(self, st):
        cands = [t for t in (A.T2, A.S, A.TS) if A.tname(t) in self.places]
        if not cands:
            return None
        ty = self.rng.choice(cands)
        if ty["k"] == "struct":
            return None
        src = self.pick_place(st, ty, self.can_own)
        if src is None:
            return None
        self.set_hold(st, src, False)
        tg = []
        for et in ty["el"]:
            d = self.pick_place(st, et, self.can_assign, avoid=tg)
            if d is None or not self.assignable_syntax(d):
                self.set_hold(st, src, True)
                for x in tg:
                    self.set_hold(st, x, False)
                return None
            self.set_hold(st, d, True)
            tg.append(d)
        return {"k": "assign", "tgts": [list(x) for x in tg], "val": P(src)}

    def s_swap(self, st):
        a = self.pick_place(st, Q, lambda s, p: self.can_own(s, p) and self.assignable_syntax(p))
        if a is None:
            return None
        b = self.pick_place(st, Q, lambda s, p: self.can_own(s, p) and self.assignable_syntax(p), avoid=[a])
        if b is None or not (self.assignable_syntax(a) and self.assignable_syntax(b)):
            return None
        return {"k": "assign", "tgts": [list(a), list(b)], "val": ctor(A.T2, [P(b), P(a)])}

    # ------------------------------------------------------------------ repairs
    def fix(self, st, target_hold):
        """statements that bring `st.hold` to `target_hold`"""
        out = []
        if self.rng.random() < self.nofix:
            return out
        rng = self.rng
        for n in self.prog["vars"]:
            lv = self.leaves[n]
            fill = [l for l in lv if target_hold[l] and not st.hold[l]]
            rebuild = any(not self.assignable_syntax(l) for l in fill) or (any(len(l) > 1 for l in fill) and n not in st.bound)
            drop = [l for l in lv if st.hold[l] and (rebuild or not target_hold[l])]
            root = (n,)
            if drop and len(drop) == len(lv) and self.can_own(st, root) and rng.random() < 0.6:
                out.append({"k": "expr", "val": C(self.consume_f(self.prog["vars"][n]["ty"]), P(root))})
                self.set_hold(st, root, False)
            else:
                for l in drop:
                    if self.kind(l) == "borrowed" and len(l) == 1:
                        continue
                    out.append({"k": "expr", "val": C(self.consume_f(A.type_at(self.prog, l)), P(l))})
                    st.hold[l] = False
            if rebuild:
                if self.kind(root) == "borrowed":
                    continue
                out.append({"k": "assign", "tgts": [[n]], "val": self.fresh(self.prog["vars"][n]["ty"], st)})
                self.set_hold(st, root, True)
                for l in lv:
                    if not target_hold[l]:
                        out.append({"k": "expr", "val": C(self.consume_f(A.type_at(self.prog, l)), P(l))})
                        st.hold[l] = False
            else:
                for l in fill:
                    if self.kind(l) == "borrowed" and len(l) == 1:
                        continue
                    out.append({"k": "assign", "tgts": [list(l)], "val": self.fresh(A.type_at(self.prog, l), st)})
                    st.hold[l] = True
                    if len(l) == 1:
                        st.bound.add(n)
        return out

    def ret_stmts(self, st, final=False):
        rty = self.prog["rty"]
        v = self.val(st, rty, noborrowed=True) if rty else NONE
        out = self.fix(st, self.exit_hold)
        if self.prog.get("cret"):
            out.append({"k": "return", "val": v, "cls": self.int_expr(st)})
        elif rty or not final or self.rng.random() < 0.3:
            out.append({"k": "return", "val": v})
        return out

    # ------------------------------------------------------------------ blocks
    def block(self, st, depth, n, loop):
        rng = self.rng
        out = []
        for _ in range(n):
            if self.rich and rng.random() < 0.3:
                out.append(self.cls_stmt(st))
            r = rng.random()
            if depth < self.maxdepth and r < 0.17:
                s, term = self.g_if(st, depth, loop)
                out.append(s)
                if term:
                    return out, True
            elif depth < self.maxdepth and r < 0.29:
                out.append(self.g_while(st, depth))
            elif r < 0.36 and depth > 0:
                j = rng.choice(["break", "continue", "return"] if loop else ["return"])
                if j == "return":
                    out += self.ret_stmts(st)
                elif j == "break":
                    out += self.fix(st, loop[1]) + [{"k": "break"}]
                else:
                    out += self.fix(st, loop[0]) + [{"k": "continue"}]
                return out, True
            else:
                out.append(self.simple(st))
        return out, False

    def g_if(self, st, depth, loop):
        rng = self.rng
        c = self.cond(st)
        s1, s2 = st.copy(), st.copy()
        b1, t1 = self.block(s1, depth + 1, rng.randint(1, 3), loop)
        if rng.random() < 0.4:
            b2, t2 = [], False
        else:
            b2, t2 = self.block(s2, depth + 1, rng.randint(1, 3), loop)
        if t1 and t2:
            res, term = s1, True
        elif t1:
            res, term = s2, False
        elif t2:
            res, term = s1, False
        else:
            r = rng.random()
            if r < 0.4:
                target = dict(s1.hold)
            elif r < 0.8:
                target = dict(s2.hold)
            else:
                target = {l: rng.choice([s1.hold[l], s2.hold[l]]) for l in s1.hold}
            b1 += self.fix(s1, target)
            b2 += self.fix(s2, target)
            res, term = St(dict(s1.hold), s1.bound & s2.bound, s1.cb & s2.cb), False
        st.hold, st.bound, st.cb = res.hold, res.bound, res.cb
        return {"k": "if", "c": c, "then": b1, "else": b2}, term

    def g_while(self, st, depth):
        rng = self.rng
        entry = st.copy()
        if self.rich and rng.random() < 0.4:
            kv = f"k{self.loopdepth}"
            c = {"e": "opaque", "v": f"FOR:for {kv} in range({self.int_expr(st)})"}
        else:
            kv = None
            c = self.cond(st)
        after = st.copy()
        sb = st.copy()
        if kv:
            sb.cb.add(kv)
        self.loopdepth += 1
        body, term = self.block(sb, depth + 1, rng.randint(1, 3), (entry.hold, after.hold))
        self.loopdepth -= 1
        if not term:
            body += self.fix(sb, entry.hold)
        st.hold, st.bound, st.cb = dict(after.hold), set(after.bound), set(after.cb)
        return {"k": "while", "c": c, "body": body}

    # ------------------------------------------------------------------ classical decoration (rich mode)
    # variable types are fixed by name: i, j, k<n>: int; f: float; g: bool; xs: array[int, 3];
    # o: Option[int]; pr: tuple[int, float]
    def int_expr(self, st):
        rng = self.rng
        if st is None:
            return str(rng.randint(0, 4))
        opts = [str(rng.randint(0, 4))]
        opts += [v for v in ("i", "j", "k0", "k1", "k2") if v in st.cb]
        if "xs" in st.cb:
            opts += ["xs[0]", "xs[2]"]
        if "pr" in st.cb:
            opts.append("pr[0]")
        if "o" in st.cb:
            opts.append("o.unwrap()")
        if "m" in self.prog["vars"] and "m" in st.bound and self.holding(st, ("m",)):
            opts.append("m.k")
        a = rng.choice(opts)
        if rng.random() < 0.4:
            a = f"{a} {rng.choice(['+', '-', '*'])} {rng.choice(opts)}"
        return a

    def bool_expr(self, st):
        rng = self.rng
        atoms = ["b", "cond()", f"{self.int_expr(st)} < {self.int_expr(st)}", f"{self.int_expr(st)} == {self.int_expr(st)}"]
        if "g" in st.cb:
            atoms.append("g")
        if "o" in st.cb:
            atoms.append("o.is_some()")
        a = rng.choice(atoms)
        r = rng.random()
        if r < 0.2:
            a = f"not {a}"
        elif r < 0.45:
            a = f"{a} {rng.choice(['and', 'or'])} {rng.choice(atoms)}"
        return a

    def cls_stmt(self, st):
        rng = self.rng
        k = rng.choice(["i", "i", "j", "f", "g", "xs", "xs", "o", "pr", "aug", "setitem", "result", "result"])
        src = None
        if k in ("i", "j"):
            src = f"{k} = {self.int_expr(st)}"
            st.cb.add(k)
        elif k == "f":
            src = f"f = {rng.choice(['0.5', '2.0'])}" + (" + f" if "f" in st.cb else "")
            st.cb.add("f")
        elif k == "g":
            src = f"g = {self.bool_expr(st)}"
            st.cb.add("g")
        elif k == "xs":
            src = f"xs = array({self.int_expr(st)}, {self.int_expr(st)}, 3)"
            st.cb.add("xs")
        elif k == "o":
            src = rng.choice([f"o = some({self.int_expr(st)})", "o: Option[int] = nothing()"])
            st.cb.add("o")
        elif k == "pr" and "f" in st.cb:
            src = f"pr = ({self.int_expr(st)}, f)"
            st.cb.add("pr")
        elif k == "aug" and "i" in st.cb:
            src = f"i += {self.int_expr(st)}"
        elif k == "setitem" and "xs" in st.cb:
            src = f"xs[{rng.randint(0, 2)}] = {self.int_expr(st)}"
        elif k == "result":
            src = f'result("t", {self.int_expr(st)})'
        return {"k": "cls", "src": src} if src else {"k": "pass"}


def strip_dead(stmts) -> bool:
    """Remove statements that are on no path (after a jump, or after an `if` whose branches both
    jump) in place.  /repo still resolves names in dead code, which is outside the property."""
    for i, s in enumerate(stmts):
        term = False
        if s["k"] in ("break", "continue", "return"):
            term = True
        elif s["k"] == "if":
            t1, t2 = strip_dead(s["then"]), strip_dead(s["else"])
            term = t1 and t2
        elif s["k"] == "while":
            strip_dead(s["body"])
        if term:
            del stmts[i + 1:]
            return True
    return False


def gen_program(rng: random.Random, pid: int, **kw) -> dict:
    return Gen(rng, **kw).program(pid)


# --------------------------------------------------------------------------------------
# mutation
# --------------------------------------------------------------------------------------
def _lists(stmts, inloop=False):
    yield stmts, inloop
    for s in stmts:
        if s["k"] == "if":
            yield from _lists(s["then"], inloop)
            yield from _lists(s["else"], inloop)
        elif s["k"] == "while":
            yield from _lists(s["body"], True)


def _exprs(e):
    yield e
    for a in e.get("args", []) + e.get("els", []) + ([e["of"]] if "of" in e else []):
        yield from _exprs(a)


def _stmt_exprs(prog):
    for lst, _ in _lists(prog["body"]):
        for s in lst:
            for key in ("val", "c"):
                if key in s:
                    yield from _exprs(s[key])


SIMPLE = ("assign", "expr", "pass")
FLIP = {"h": ["discard", "measure"], "discard": ["h", "measure"], "measure": ["h", "discard"]}
for _t in A.AGGS:
    FLIP["b_" + _t["name"]] = ["c_" + _t["name"]]
    FLIP["c_" + _t["name"]] = ["b_" + _t["name"]]


def mutate(prog: dict, rng: random.Random, pid: int, nmut: int = 1) -> dict:
    p = A.clone(prog)
    p["id"] = pid
    applied = []
    for _ in range(nmut):
        lists = list(_lists(p["body"]))
        op = rng.choice(["del", "del", "dup", "dup", "mov", "place", "place", "flip", "flip", "jump", "tgt", "unassign"])
        if op == "del":
            cands = [(l, i) for l, _ in lists for i in range(len(l))]
            if cands:
                l, i = rng.choice(cands)
                del l[i]
        elif op in ("dup", "mov"):
            cands = [(l, i) for l, _ in lists for i in range(len(l)) if l[i]["k"] in SIMPLE]
            if cands:
                l, i = rng.choice(cands)
                s = A.clone(l[i])
                if op == "mov":
                    del l[i]
                if op == "dup" and rng.random() < 0.5:
                    l.insert(i + 1, s)   # adjacent duplicate (double use / overwrite in one block)
                else:
                    l2, _ = rng.choice(lists)
                    l2.insert(rng.randint(0, len(l2)), s)
        elif op == "place":
            ex = [e for e in _stmt_exprs(p) if e["e"] == "place"]
            if ex:
                e = rng.choice(ex)
                ty = A.type_at(p, e["p"])
                g = Gen(rng)
                g.places = {}
                for n, v in p["vars"].items():
                    g._collect([n], v["ty"])
                alt = [x for x in g.places[A.tname(ty)] if list(x) != e["p"]]
                if alt:
                    e["p"] = list(rng.choice(alt))
        elif op == "flip":
            # only calls in statement position (h() returns None, measure() a bool)
            ex = [s["val"] for l, _ in lists for s in l if s["k"] == "expr" and s["val"]["e"] == "call" and s["val"]["f"] in FLIP]
            if ex:
                e = rng.choice(ex)
                e["f"] = rng.choice(FLIP[e["f"]])
        elif op == "jump":
            l, inloop = rng.choice(lists)
            ks = (["break", "continue"] if inloop else []) + (["return"] if p["ret"] == "none" else [])
            if ks:
                k = rng.choice(ks)
                l.insert(rng.randint(0, len(l)), {"k": k, "val": NONE} if k == "return" else {"k": k})
        elif op == "unassign":   # drop the result of a call: `x = f(..)` becomes `f(..)`
            cands = [s for l, _ in lists for s in l if s["k"] == "assign" and s["val"]["e"] == "call"]
            if cands:
                s = rng.choice(cands)
                s["k"] = "expr"
                del s["tgts"]
        elif op == "tgt":
            cands = [s for l, _ in lists for s in l if s["k"] == "assign" and len(s["tgts"]) == 1]
            if cands:
                s = rng.choice(cands)
                ty = A.type_at(p, s["tgts"][0])
                g = Gen(rng)
                g.places = {}
                for n, v in p["vars"].items():
                    g._collect([n], v["ty"])
                alt = [x for x in g.places[A.tname(ty)] if list(x) != s["tgts"][0] and not any(c.isdigit() for c in x[1:])]
                if alt:
                    s["tgts"] = [list(rng.choice(alt))]
        applied.append(op)
    p["mut"] = applied
    strip_dead(p["body"])
    return A.number(p)


# --------------------------------------------------------------------------------------
# exhaustive small grammar
# --------------------------------------------------------------------------------------
FAMILIES = ["q-local", "q-owned", "q-borrowed", "s-local", "s-owned", "s-borrowed"]


def _atoms(family):
    """atomic statements of an enumeration family: qubit variables q, p / struct variable s"""
    if family.startswith("q"):
        q, p = ["q"], ["p"]
        return [
            {"k": "assign", "tgts": [q], "val": NEW},
            {"k": "assign", "tgts": [p], "val": P(q)},
            {"k": "assign", "tgts": [q], "val": P(p)},
            {"k": "expr", "val": C("discard", P(q))},
            {"k": "expr", "val": C("discard", P(p))},
            {"k": "expr", "val": C("h", P(q))},
        ]
    s = ["sv"]
    return [
        {"k": "assign", "tgts": [s], "val": C("m_S")},
        {"k": "assign", "tgts": [["sv", "a"]], "val": NEW},
        {"k": "assign", "tgts": [["sv", "b"]], "val": P(["sv", "a"])},
        {"k": "expr", "val": C("discard", P(["sv", "a"]))},
        {"k": "expr", "val": C("c_S", P(s))},
        {"k": "expr", "val": C("b_S", P(s))},
    ]


def _seqs(atoms, size, inloop, top):
    """all statement lists with exactly `size` statement nodes"""
    if size == 0:
        yield []
        return
    # first statement uses `k` nodes, rest uses size - k
    for k in range(1, size + 1):
        for first in _stmts(atoms, k, inloop, top):
            if first["k"] in ("break", "continue", "return"):
                if size - k == 0:
                    yield [first]
                continue  # nothing after a jump (dead code is not on any path)
            for rest in _seqs(atoms, size - k, inloop, top):
                yield [first] + rest


def _stmts(atoms, size, inloop, top):
    if size == 1:
        yield from atoms
        if inloop:
            yield {"k": "break"}
            yield {"k": "continue"}
        if not top:
            yield {"k": "return", "val": NONE}
        return
    inner = size - 1
    for a in range(1, inner + 1):
        for th in _seqs(atoms, a, inloop, False):
            for el in _seqs(atoms, inner - a, inloop, False):
                yield {"k": "if", "c": {"e": "opaque", "v": ""}, "then": th, "else": el}
    for body in _seqs(atoms, inner, True, False):
        yield {"k": "while", "c": {"e": "opaque", "v": ""}, "body": body}


def enumerate_small(maxsize: int, family: str):
    """every program with <= maxsize statement nodes of the family (kind = of q resp. s; p is local)"""
    atoms = _atoms(family)
    kind = family.split("-")[1]
    for size in range(1, maxsize + 1):
        for body in _seqs(atoms, size, False, True):
            if family.startswith("q"):
                vars_ = {"q": {"ty": Q, "kind": kind}, "p": {"ty": Q, "kind": "local"}}
                params = ["q"] if kind != "local" else []
            else:
                vars_ = {"sv": {"ty": A.S, "kind": kind}}
                params = ["sv"] if kind != "local" else []
            p = {"vars": vars_, "params": params, "bparams": [], "ret": "none", "rty": None, "body": A.clone(body),
                 "family": family}
            n0 = A.number(p)["nstmts"]
            strip_dead(p["body"])   # e.g. after `if c: return  else: return`
            if A.number(p)["nstmts"] == n0:
                yield p
