"""C08 replay worker: check() one rendered program with /repo's guppylang and classify."""
from __future__ import annotations

import traceback

KIND_OF_DIAG = {
    "VarNotDefinedError": "never",
    "VarMaybeNotDefinedError": "maybe",
    "BranchTypeError": "types",
}


def check_job(job: dict) -> dict:
    """job = {"id", "src", "experimental"}; total (never raises)."""
    import gp
    import guppylang_internals.experimental as ex
    from guppylang_internals.error import GuppyError
    from guppylang_internals.span import to_span

    res = {"id": job["id"]}
    mod = None
    prev = ex.EXPERIMENTAL_FEATURES_ENABLED
    try:
        ex.EXPERIMENTAL_FEATURES_ENABLED = bool(job.get("experimental"))
        mod = gp.load(job["src"])
        try:
            mod.main.check()
            res["status"] = "ok"
        except GuppyError as e:
            d = e.error
            name = type(d).__name__
            res.update(status="rejected", diag=name, title=getattr(d, "rendered_title", None) or d.title)
            var = getattr(d, "var", None)
            if name == "BranchTypeError":
                ident = d.ident  # "Variable `va`"
                var = ident.split("`")[1] if "`" in ident else ident
            res["var"] = var
            try:
                sp = to_span(d.span) if d.span is not None else None
                res["line"] = sp.start.line - gp.PRELUDE.count("\n") if sp else None
            except Exception as e2:  # noqa: BLE001
                res["line"] = None
                res["span_error"] = repr(e2)[:200]
    except BaseException as e:  # noqa: BLE001
        res.update(status="crash", error={"class": type(e).__name__, "msg": str(e)[:300],
                                           "tb": traceback.format_exc()[-1500:]})
    finally:
        ex.EXPERIMENTAL_FEATURES_ENABLED = prev
        if mod is not None:
            gp.unload(mod)
    return res
