"""Job runner for the C24/C25 replays.

Measured in this sandbox: a forked worker that touches the (large) guppylang heap of its parent
pays ~9k copy-on-write page faults at ~0.7 ms each before its first job, so a fork pool of 16
is far slower than running a few thousand 6-25 ms jobs in-process.  Small workloads therefore run
in-process; large ones on a *spawn* pool whose workers import guppylang themselves.
"""
from __future__ import annotations

import multiprocessing as mp
import os


def _init():
    import gp  # noqa: F401
    import guppylang.std.builtins  # noqa: F401
    import guppylang.std.debug  # noqa: F401
    import guppylang.std.quantum  # noqa: F401


def run(fn, jobs, *, est_seconds_per_job: float, procs: int = 8, inproc_budget: float = 90.0, log=None):
    """Ordered map; `fn` must be a module-level function of an importable module."""
    total = est_seconds_per_job * len(jobs)
    if total <= inproc_budget or len(jobs) < 2 * procs:
        _init()
        out = []
        for k, j in enumerate(jobs):
            out.append(fn(j))
            if log and k and k % 200 == 0:
                log(f"  {k}/{len(jobs)} batches")
        return out
    procs = min(procs, os.cpu_count() or 4)
    ctx = mp.get_context("spawn")
    with ctx.Pool(procs, initializer=_init) as p:
        return p.map(fn, jobs, chunksize=max(1, len(jobs) // (procs * 8)))
