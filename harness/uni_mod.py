"""C25 helper: render a case printed by spec/Modifiers.tla to Guppy source, compile it with
/repo's guppylang and project the HUGR (uni_hugr).  The with-items and the body are rendered
from the records TLC printed (`expected` chains, `body`), so no naming table or expectation
is duplicated here."""
from __future__ import annotations

import json

QUBITS = ["q", "r"] + [f"{x}{i}" for i in range(1, 5) for x in "ab"]
ARR3 = [f"r{i}" for i in range(1, 5)]
ARR2 = [f"s{i}" for i in range(1, 5)]
NATS = [f"k{i}" for i in range(1, 5)]
PARAMS = ([(n, "qubit") for n in QUBITS] + [("qs", "array[qubit, 2]")] + [(n, "array[qubit, 3]") for n in ARR3]
          + [(n, "array[qubit, 2]") for n in ARR2]
          + [("kk", "int")] + [(n, "nat") for n in NATS])
PARAM_NAMES = [n for n, _ in PARAMS]
LINEAR = [n for n, t in PARAMS if "qubit" in t]

DECLS = """\
@guppy.declare(unitary=True)
def u(q: qubit, k: int) -> None: ...

@guppy.declare(unitary=True)
def ua(qs: array[qubit, 2]) -> None: ...

@guppy.declare(unitary=True)
def g(q: qubit) -> nat: ...

"""

GATES = {"H": "h", "CX": "cx", "call:u": "u", "call:ua": "ua"}


def item_src(m: dict, variant: int) -> str:
    if m["op"] == "Dagger":
        return "dagger()" if variant % 2 else "dagger"
    if m["op"] == "Control":
        return "control(" + ", ".join(m["src"]) + ")"
    if m["op"] == "Power":
        o = m["opnd"]
        return f"power({o[1:]})" if o.startswith("#") else f"power({o})"
    raise ValueError(m)


def case_key(case: dict) -> str:
    s = "with[" + ",".join(case["outer"]) + "]"
    if case["inner"]:
        s += ">with[" + ",".join(case["inner"]) + "]"
    return s + " " + case["body"]


def render(p: dict, name: str = "test", variant: int = 0) -> str:
    """p = one record printed by TLC."""
    sig = ", ".join(f"{n}: {t}" for n, t in PARAMS)
    lines = ["@guppy", f"def {name}({sig}) -> None:"]
    ind = 1
    for lvl, chain in enumerate(p["expected"]):
        lines.append("    " * ind + "with " + ", ".join(item_src(m, variant + lvl + j) for j, m in enumerate(chain)) + ":")
        ind += 1
    body = [f"{GATES[o['g']]}({', '.join(o['args'])})" for o in p["body"]] or ["pass"]
    lines += ["    " * ind + b for b in body]
    return "\n".join(lines) + "\n"


def observe_batch(job: dict) -> list[dict]:
    """job = {"cases": [TLC records], "seed": int}. Total."""
    import traceback

    import gp
    import guppylang_internals.experimental as ex
    import uni_hugr
    from guppylang_internals.error import GuppyError

    res = []
    prev = ex.EXPERIMENTAL_FEATURES_ENABLED
    ex.EXPERIMENTAL_FEATURES_ENABLED = True
    mod = None
    try:
        src = DECLS + "\n".join(render(p, f"t{i}", job.get("seed", 0) + i) for i, p in enumerate(job["cases"]))
        mod = gp.load(src)
        for i, p in enumerate(job["cases"]):
            r: dict = {}
            try:
                pkg = getattr(mod, f"t{i}").compile_function()
            except GuppyError as e:
                d = e.error
                r.update(status="rejected", error=f"{type(d).__name__}: {getattr(d, 'title', '')}")
                res.append(r)
                continue
            except Exception as e:  # noqa: BLE001
                r.update(status="crash", error=f"{type(e).__name__}: {e}"[:300], tb=traceback.format_exc()[-1200:])
                res.append(r)
                continue
            r["status"] = "ok"
            try:
                gp.validate(pkg)
                r["valid"] = True
            except Exception as e:  # noqa: BLE001
                r["valid"] = False
                s = str(e)
                k = s.find("Caused by")
                r["invalid_msg"] = s[k:k + 500] if k >= 0 else s[:500]
            try:
                r["proj"] = uni_hugr.project(pkg, f"t{i}", PARAM_NAMES, LINEAR)
            except uni_hugr.Shape as e:
                r["shape_error"] = str(e)
            res.append(r)
    except BaseException as e:  # noqa: BLE001
        tb = traceback.format_exc()[-1500:]
        while len(res) < len(job["cases"]):
            res.append({"status": "machinery", "error": f"{type(e).__name__}: {e}"[:300], "tb": tb})
    finally:
        ex.EXPERIMENTAL_FEATURES_ENABLED = prev
        if mod is not None:
            gp.unload(mod)
    return res


if __name__ == "__main__":
    import sys

    print(render(json.loads(sys.argv[1])))
