"""C23 replay: run sessions printed by spec/ComptimeGlobals.tla on real generated modules.

session = {"place": [mod of f1, ...], "bind": {mod: ["<name>=<kind>", ...]}  (kind: user | none | zero),
           "script": [{"call": [kind, g], "fault": kind}, ...],
           "steps": [{"entry": f, "outcome": .., "obs": [{"tag": [f, k], "g": {mod: {name: cls}}}], "after": {...}}]}
"""
from __future__ import annotations

import builtins

import gp
import eng_ct_rt as rt

PRELUDE = "import eng_ct_rt as _rt\nfrom guppylang import guppy\n"

USER_SRC = {
    "int": "int = 'the user's own int'.replace(\"'\", '')\n",
    "float": "float = 2.5\n",
    "len": "def len(x):\n    return 7\n",
}
USER_SRC["int"] = 'int = "user " + "int"\n'  # a fresh str object (not interned with anything else)


def body_src(f: int, sc: dict) -> str:
    kind, g = sc["call"]
    ft = sc["fault"]
    L = [f"@guppy.comptime\ndef f{f}() -> None:", f"    _rt.rec({f}, 0)"]

    def fault(which):
        if ft == f"py_{which}":
            L.append(f"    raise ValueError('f{f} {which}')")
        elif ft == f"guppy_{which}":
            L.append("    d(1)")
        elif ft == f"intr_{which}":
            L.append(f"    raise KeyboardInterrupt('f{f} {which}')")

    fault("before")
    if kind == "call":
        L.append(f"    _rt.F({g})()")
    elif kind == "nest":
        L.append(f"    _rt.F({g}).compile_function()")
    elif kind == "nestcatch":
        L += ["    try:", f"        _rt.F({g}).compile_function()", "    except BaseException:", "        pass"]
    L.append(f"    _rt.rec({f}, 1)")
    fault("after")
    L.append("    return 1" if ft == "bad_return" else "    return None")
    return "\n".join(L) + "\n"


def bindings(sess: dict, mod: str) -> dict:
    """name -> kind for the user's bindings in module `mod`."""
    return dict(b.split("=", 1) for b in sess["bind"].get(mod, []))


def binding_src(name: str, kind: str) -> str:
    return {"user": USER_SRC[name], "none": f"{name} = None\n", "zero": f"{name} = 0\n"}[kind]


def module_src(mod: str, sess: dict) -> str:
    b = bindings(sess, mod)
    src = "".join(binding_src(n, b[n]) for n in rt.NAMES if n in b)
    src += "\n@guppy.declare\ndef d() -> None: ...\n\n"
    for i, m in enumerate(sess["place"], start=1):
        if m == mod:
            src += body_src(i, sess["script"][i - 1]) + "\n"
    return src


def snapshot(mods: dict) -> dict:
    snap = {m: [(k, id(v)) for k, v in mod.__dict__.items()] for m, mod in mods.items()}
    snap["builtins"] = [(n, id(getattr(builtins, n))) for n in rt.NAMES]
    return snap


def diff_snap(a: dict, b: dict) -> list:
    out = []
    for m in a:
        if a[m] != b[m]:
            da, db = dict(a[m]), dict(b[m])
            for k in list(da) + [k for k in db if k not in da]:
                if da.get(k) != db.get(k):
                    out.append(f"{m}.{k}: {'absent' if k not in da else 'present'} -> "
                               f"{'absent' if k not in db else 'same object' if da.get(k) == db.get(k) else 'different object'}")
            if not out or [k for k, _ in a[m]] != [k for k, _ in b[m]]:
                out.append(f"{m}: order of names changed")
    return out


def classify_exc(e: BaseException) -> str:
    from guppylang_internals.error import GuppyComptimeError, GuppyError

    if isinstance(e, ValueError) and str(e).startswith("f"):
        return "py"
    if isinstance(e, KeyboardInterrupt):
        return "intr"
    if isinstance(e, GuppyComptimeError):
        return "guppy"
    if isinstance(e, GuppyError):
        t = type(e.error).__name__
        return "bad_return" if t == "TypeMismatchError" else f"other:GuppyError:{t}"
    return f"other:{type(e).__name__}:{str(e)[:120]}"


def run_session(sess: dict) -> dict:
    """Execute the session; returns observed steps in the shape of the spec's `steps` + side observations."""
    from guppylang_internals.tracing.state import reset_state, tracing_active

    modnames = sorted(sess["bind"])
    mods = {}
    rt.SESSION.update(mods=mods, fns={}, user={}, log=[])
    try:
        for m in modnames:
            mods[m] = gp.load(module_src(m, sess), prelude=PRELUDE)
            for n, kind in bindings(sess, m).items():
                rt.SESSION["user"][m, n] = (kind, mods[m].__dict__[n])
        for i, m in enumerate(sess["place"], start=1):
            rt.SESSION["fns"][i] = getattr(mods[m], f"f{i}")
        initial = snapshot(mods)
        init_view = rt.view()
        steps = []
        for st in sess["steps"]:
            rt.SESSION["log"] = []
            try:
                rt.F(st["entry"]).compile_function()
                outcome = "ok"
            except BaseException as e:  # noqa: BLE001
                outcome = classify_exc(e)
            after = snapshot(mods)
            steps.append({"entry": st["entry"], "outcome": outcome, "obs": rt.SESSION["log"], "after": rt.view(),
                          "dict_diff": diff_snap(initial, after), "tracing_active_after": tracing_active()})
        return {"steps": steps, "init_view": init_view}
    finally:
        reset_state()
        for mod in mods.values():
            gp.unload(mod)
        rt.SESSION.update(mods={}, fns={}, user={}, log=[])


def compare(sess: dict, got: dict) -> list:
    """Mismatches between the spec's expectation and the observation."""
    bad = []
    initg = {m: {n: bindings(sess, m).get(n, "absent") for n in rt.NAMES} for m in sess["bind"]}
    if got["init_view"] != initg:
        bad.append({"step": -1, "what": "initial namespaces", "spec": initg, "code": got["init_view"]})
    for i, (e, o) in enumerate(zip(sess["steps"], got["steps"])):
        if e["outcome"] != o["outcome"]:
            bad.append({"step": i, "what": "outcome", "spec": e["outcome"], "code": o["outcome"]})
        if e["obs"] != o["obs"]:
            k = next((j for j in range(min(len(e["obs"]), len(o["obs"]))) if e["obs"][j] != o["obs"][j]),
                     min(len(e["obs"]), len(o["obs"])))
            bad.append({"step": i, "what": "in-body observation", "index": k,
                        "spec": e["obs"][k] if k < len(e["obs"]) else None,
                        "code": o["obs"][k] if k < len(o["obs"]) else None})
        if e["after"] != o["after"]:
            bad.append({"step": i, "what": "namespaces after compile()", "spec": e["after"], "code": o["after"]})
        elif e["after"] == initg and o["dict_diff"]:
            bad.append({"step": i, "what": "module __dict__ after compile()", "spec": "identical to initial",
                        "code": o["dict_diff"]})
    return bad


def replay_job(job: dict) -> dict:
    out = {"bad": [], "leaks": 0, "failed_steps": 0}
    for k, sess in enumerate(job["sessions"]):
        try:
            got = run_session(sess)
        except Exception as e:  # noqa: BLE001
            import traceback

            out["bad"].append([k, [{"step": -2, "what": "replay crashed", "spec": None,
                                    "code": f"{type(e).__name__}: {e}\n{traceback.format_exc()[-1200:]}"}]])
            continue
        for e, o in zip(sess["steps"], got["steps"]):
            if o["outcome"] != "ok":
                out["failed_steps"] += 1
                out["leaks"] += bool(o["tracing_active_after"])
        b = compare(sess, got)
        if b:
            out["bad"].append([k, b])
    return out
