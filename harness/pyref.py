"""Run Guppy source text under CPython with recording stubs (the Python oracle), and encode
values / events in the format of spec/GuppySem.tla."""
from __future__ import annotations

import copy
import sys

from py2json import Unrepresentable, fq


class PanicExc(Exception):
    pass


class BudgetExc(Exception):
    pass


class _Guppy:
    def __call__(self, f=None, **kw):
        if f is None:
            return lambda g: g
        return f

    def comptime(self, f):
        return f

    def declare(self, f):
        return f

    def struct(self, cls):
        fields = list(getattr(cls, "__annotations__", {}))

        def __init__(self, *args):
            if len(args) != len(fields):
                raise TypeError("struct arity")
            for n, v in zip(fields, args):
                setattr(self, n, v)

        cls.__init__ = __init__
        cls._fields = fields
        return cls

    def type_var(self, name, **kw):
        return name

    def nat_var(self, name, **kw):
        return name

    def overload(self, *fs):
        raise NotImplementedError("overload under CPython")


def enc(v):
    if isinstance(v, bool):
        return ["bool", int(v)]
    if isinstance(v, int):
        if abs(v) >= 2**31:
            raise Unrepresentable(f"int {v}")
        return ["int", v]
    if isinstance(v, float):
        return ["float", fq(v)]
    if isinstance(v, list):
        return ["array", [enc(x) for x in v]]
    if isinstance(v, tuple):
        return ["tuple", [enc(x) for x in v]]
    if v is None:
        return ["none"]
    if hasattr(v, "_fields"):
        return ["struct", type(v).__name__, list(v._fields), [enc(getattr(v, f)) for f in v._fields]]
    raise Unrepresentable(f"value {v!r}")


def dec_arg(v):
    """JSON-encoded spec value -> Python value (for calling the CPython function)."""
    t = v[0]
    if t == "int":
        return v[1]
    if t == "bool":
        return bool(v[1])
    if t == "float":
        return v[1] / 4
    if t == "array":
        return [dec_arg(x) for x in v[1]]
    if t == "tuple":
        return tuple(dec_arg(x) for x in v[1])
    raise ValueError(v)


def run_py(src: str, entry: str, args: list, budget: int = 20000, max_abs: int = 2**26) -> dict:
    """Returns {"trace": [events], "end": "return"|"panic", "ret": enc|["skip"]} or {"skip": reason}."""
    events = []

    def result(tag, v):
        events.append(["result", tag, enc(copy.deepcopy(v))])

    def panic(msg, *a):
        raise PanicExc(msg)

    def array(*xs):
        if len(xs) == 1 and hasattr(xs[0], "__next__"):
            return list(xs[0])
        return list(xs)

    g = {"guppy": _Guppy(), "result": result, "panic": panic, "array": array, "nat": int, "owned": None,
         "comptime": lambda x: x, "__name__": "_pyref", "exit": panic, "print": lambda *a, **k: None}
    steps = [0]

    def tracer(frame, event, arg):
        if event == "line":
            steps[0] += 1
            if steps[0] > budget:
                raise BudgetExc
        return tracer

    try:
        code = compile("from __future__ import annotations\n" + src, "<pyref>", "exec")
        exec(code, g)
    except Exception as e:  # noqa: BLE001
        return {"skip": f"python cannot load: {type(e).__name__}: {e}"}
    f = g[entry]
    old = sys.gettrace()
    sys.settrace(tracer)
    try:
        try:
            ret = f(*[dec_arg(a) for a in args])
            end = "return"
        except PanicExc as e:
            ret, end = None, "panic"
            events.append(["panic", str(e)])
        except IndexError:
            # out-of-bounds subscript: Python raises where Guppy panics
            ret, end = None, "panic"
            events.append(["panic", "index out of bounds"])
        except ZeroDivisionError:
            # Python raises where Guppy panics: the same observable "stops here"
            ret, end = None, "panic"
            events.append(["panic", "division by zero"])
        finally:
            sys.settrace(old)
    except BudgetExc:
        return {"skip": "budget"}
    except Unrepresentable as e:
        return {"skip": f"unrepresentable: {e}"}
    except RecursionError:
        return {"skip": "recursion"}
    except Exception as e:  # noqa: BLE001
        return {"skip": f"python raises {type(e).__name__}: {e}"}
    try:
        r = enc(ret) if (ret is None or isinstance(ret, (int, float, bool))) else ["skip"]
    except Unrepresentable as e:
        return {"skip": f"unrepresentable: {e}"}
    for ev in events:
        if _too_big(ev, max_abs):
            return {"skip": "values too large"}
    return {"trace": events, "end": end, "ret": r if end == "return" else ["skip"]}


def _too_big(x, m):
    if isinstance(x, list):
        return any(_too_big(y, m) for y in x)
    return isinstance(x, int) and not isinstance(x, bool) and abs(x) > m


def impl_events(events: list) -> list:
    """Interpreter events (runner.jsonable_events) -> spec event encoding."""
    out = []
    for e in events:
        if e[0] == "result":
            _, tag, kind, v = e
            out.append(["result", tag, _impl_val(kind, v)])
        elif e[0] in ("panic", "exit"):
            out.append(["panic", e[1]])
        # qubit/gate/drop events are not part of the classical stream
    return out


def _impl_val(kind, v):
    try:
        if kind in ("int", "uint"):
            if abs(v) >= 2**31:
                return ["int_raw", str(v)]
            return ["int", v]
        if kind == "bool":
            return ["bool", int(v)]
        if kind == "f64":
            return ["float", fq(v)]
        if kind.startswith("array_"):
            return ["array", [_impl_val(kind[6:].replace("f64", "f64"), x) for x in v]]
    except Unrepresentable:
        return ["float_raw", repr(v)]
    return ["unknown", repr(v)]


def impl_ret(outputs: list):
    if len(outputs) == 0:
        return ["none"]
    if len(outputs) == 1:
        v = outputs[0]
        if isinstance(v, bool):
            return ["bool", int(v)]
        if isinstance(v, int) and abs(v) < 2**31:
            return ["int", v]
        if isinstance(v, float):
            try:
                return ["float", fq(v)]
            except Unrepresentable:
                return ["float_raw", repr(v)]
    return ["skip"]
