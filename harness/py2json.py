"""Python source (the same text handed to @guppy) -> JSON AST for spec/GuppySem.tla.

`convert(src)` returns {"funcs": {name: {"params": [...], "body": [...]}}, "structs": {...}}.
Every ast node class without a mapping becomes ["MustReject", <class name>]: the spec has
no semantics for it, so a program containing it must be rejected by Guppy (C32).
"""
from __future__ import annotations

import ast

BINOPS = {ast.Add: "+", ast.Sub: "-", ast.Mult: "*", ast.FloorDiv: "//", ast.Mod: "%", ast.Div: "/",
          ast.Pow: "**", ast.BitAnd: "&", ast.BitOr: "|", ast.BitXor: "^", ast.LShift: "<<", ast.RShift: ">>"}
CMPOPS = {ast.Eq: "==", ast.NotEq: "!=", ast.Lt: "<", ast.LtE: "<=", ast.Gt: ">", ast.GtE: ">="}
UNOPS = {ast.USub: "-", ast.UAdd: "+", ast.Not: "not", ast.Invert: "~"}
BUILTINS = {"int", "float", "bool", "abs", "len", "min", "max", "divmod", "pow", "nat"}


class Unrepresentable(Exception):
    """The program is outside what the JSON encoding can carry (e.g. a float that is not a
    multiple of 0.25): the case is skipped by the harness, it is not a verdict."""


def fq(x: float) -> int:
    q = x * 4
    if q != q or q in (float("inf"), float("-inf")) or q != int(q) or abs(q) > 2**26:
        raise Unrepresentable(f"float {x}")
    return int(q)


class Conv:
    def __init__(self, tree: ast.Module):
        self.funcs: dict = {}
        self.structs: dict = {}
        self.counter = 0
        self.top = set()
        for n in tree.body:
            if isinstance(n, ast.FunctionDef):
                self.top.add(n.name)
            if isinstance(n, ast.ClassDef):
                self.structs[n.name] = [s.target.id for s in n.body if isinstance(s, ast.AnnAssign)]
        self.methods: dict = {}
        for n in tree.body:
            if isinstance(n, ast.ClassDef):
                self.methods[n.name] = {m.name: f"{n.name}.{m.name}" for m in n.body if isinstance(m, ast.FunctionDef)}
        self.method_names = {m for d in self.methods.values() for m in d}
        for n in tree.body:
            if isinstance(n, ast.FunctionDef):
                self.func(n, n.name)
            if isinstance(n, ast.ClassDef):
                for m in n.body:
                    if isinstance(m, ast.FunctionDef):
                        self.func(m, f"{n.name}.{m.name}")

    # -- functions ---------------------------------------------------------------------------
    def func(self, n: ast.FunctionDef, name: str, extra_reject: str | None = None):
        a = n.args
        body = []
        if a.vararg or a.kwarg or a.kwonlyargs or a.posonlyargs:
            body.append(["MustReject", "varargs/kwonly parameters"])
        if a.defaults or a.kw_defaults:
            body.append(["MustReject", "parameter defaults"])
        if isinstance(n, ast.AsyncFunctionDef):
            body.append(["MustReject", "async def"])
        if extra_reject:
            body.append(["MustReject", extra_reject])
        self.funcs[name] = {"params": [x.arg for x in a.args], "body": body}  # placeholder for recursion
        body += self.stmts(n.body, name)
        self.funcs[name] = {"params": [x.arg for x in a.args], "body": body}

    def stmts(self, ss, fn):
        out = []
        for i, s in enumerate(ss):
            if i == 0 and isinstance(s, ast.Expr) and isinstance(s.value, ast.Constant) and isinstance(s.value.value, str):
                continue  # docstring
            out.append(self.stmt(s, fn))
        return out

    def stmt(self, s, fn):
        if isinstance(s, ast.Assign):
            if len(s.targets) != 1:
                return ["MustReject", "chained assignment"]
            return ["Assign", self.target(s.targets[0]), self.expr(s.value)]
        if isinstance(s, ast.AnnAssign):
            if s.value is None:
                return ["MustReject", "annotation without value"]
            return ["Assign", self.target(s.target), self.expr(s.value)]
        if isinstance(s, ast.AugAssign):
            op = BINOPS.get(type(s.op))
            if op is None:
                return ["MustReject", f"augmented {type(s.op).__name__}"]
            return ["Aug", op, self.target(s.target), self.expr(s.value)]
        if isinstance(s, ast.Expr):
            v = s.value
            if isinstance(v, ast.Call) and isinstance(v.func, ast.Name) and v.func.id == "result" and not v.keywords:
                if len(v.args) == 2 and isinstance(v.args[0], ast.Constant) and isinstance(v.args[0].value, str):
                    return ["Result", v.args[0].value, self.expr(v.args[1])]
            if isinstance(v, ast.Call) and isinstance(v.func, ast.Name) and v.func.id == "panic" and not v.keywords:
                if v.args and isinstance(v.args[0], ast.Constant) and isinstance(v.args[0].value, str):
                    return ["Panic", v.args[0].value, [self.expr(a) for a in v.args[1:]]]
            return ["ExprStmt", self.expr(v)]
        if isinstance(s, ast.If):
            return ["If", self.expr(s.test), self.stmts(s.body, fn), self.stmts(s.orelse, fn)]
        if isinstance(s, ast.While):
            return ["While", self.expr(s.test), self.stmts(s.body, fn), self.stmts(s.orelse, fn)]
        if isinstance(s, ast.For):
            it = s.iter
            if isinstance(it, ast.Call) and isinstance(it.func, ast.Name) and it.func.id == "range" and not it.keywords \
                    and 1 <= len(it.args) <= 3:
                return ["ForRange", self.target(s.target), [self.expr(a) for a in it.args],
                        self.stmts(s.body, fn), self.stmts(s.orelse, fn)]
            return ["ForArr", self.target(s.target), self.expr(it), self.stmts(s.body, fn), self.stmts(s.orelse, fn)]
        if isinstance(s, ast.Break):
            return ["Break"]
        if isinstance(s, ast.Continue):
            return ["Continue"]
        if isinstance(s, ast.Return):
            return ["ReturnNone"] if s.value is None else ["Return", self.expr(s.value)]
        if isinstance(s, ast.Pass):
            return ["Pass"]
        if isinstance(s, ast.FunctionDef):
            self.counter += 1
            name = f"{fn}.{s.name}#{self.counter}"
            rej = "decorator on nested function" if s.decorator_list else None
            self.func(s, name, rej)
            self.funcs[name]["nested_name"] = s.name
            return ["Def", s.name, name]
        return ["MustReject", type(s).__name__]

    def target(self, t):
        if isinstance(t, ast.Name):
            return ["TName", t.id]
        if isinstance(t, (ast.Tuple, ast.List)):
            stars = [i for i, e in enumerate(t.elts) if isinstance(e, ast.Starred)]
            if len(stars) == 1:
                i = stars[0]
                return ["TStar", [self.target(e) for e in t.elts[:i]], self.target(t.elts[i].value),
                        [self.target(e) for e in t.elts[i + 1:]]]
            if stars:
                return ["TMustReject", "several starred targets"]
            return ["TTuple", [self.target(e) for e in t.elts]]
        if isinstance(t, ast.Subscript):
            return ["TSub", self.expr(t.value), self.expr(t.slice)]
        if isinstance(t, ast.Attribute) and isinstance(t.value, ast.Name):
            return ["TAttr", t.value.id, t.attr]
        return ["TMustReject", type(t).__name__]

    # -- expressions -----------------------------------------------------------------------------
    def expr(self, e):
        if isinstance(e, ast.Constant):
            v = e.value
            if isinstance(v, bool):
                return ["Const", "bool", int(v)]
            if isinstance(v, int):
                if abs(v) > 2**26:
                    raise Unrepresentable(f"int {v}")
                return ["Const", "int", v]
            if isinstance(v, float):
                return ["Const", "float", fq(v)]
            if isinstance(v, str):
                return ["Const", "str", v]
            if v is None:
                return ["NoneC"]
            return ["MustReject", f"constant {type(v).__name__}"]
        if isinstance(e, ast.Name):
            return ["Name", e.id]
        if isinstance(e, ast.BinOp):
            op = BINOPS.get(type(e.op))
            if op is None:
                return ["MustReject", type(e.op).__name__]
            return ["BinOp", op, self.expr(e.left), self.expr(e.right)]
        if isinstance(e, ast.UnaryOp):
            return ["UnaryOp", UNOPS[type(e.op)], self.expr(e.operand)]
        if isinstance(e, ast.BoolOp):
            return ["BoolOp", "and" if isinstance(e.op, ast.And) else "or", [self.expr(v) for v in e.values]]
        if isinstance(e, ast.Compare):
            ops = [CMPOPS.get(type(o)) for o in e.ops]
            if None in ops:
                return ["MustReject", "comparison operator " + "/".join(type(o).__name__ for o in e.ops)]
            return ["Compare", self.expr(e.left), ops, [self.expr(c) for c in e.comparators]]
        if isinstance(e, ast.IfExp):
            return ["IfExp", self.expr(e.test), self.expr(e.body), self.expr(e.orelse)]
        if isinstance(e, ast.NamedExpr):
            return ["Walrus", e.target.id, self.expr(e.value)]
        if isinstance(e, ast.Tuple):
            if any(isinstance(x, ast.Starred) for x in e.elts):
                return ["MustReject", "starred expression"]
            return ["Tuple", [self.expr(x) for x in e.elts]]
        if isinstance(e, ast.Subscript):
            if isinstance(e.slice, ast.Slice):
                return ["MustReject", "slice"]
            return ["Sub", self.expr(e.value), self.expr(e.slice)]
        if isinstance(e, ast.Attribute):
            return ["Attr", self.expr(e.value), e.attr]
        if isinstance(e, ast.Call):
            if e.keywords:
                return ["MustReject", "keyword arguments"]
            if any(isinstance(a, ast.Starred) for a in e.args):
                return ["MustReject", "starred argument"]
            args = [self.expr(a) for a in e.args if not isinstance(a, (ast.GeneratorExp, ast.ListComp))]
            if isinstance(e.func, ast.Attribute) and e.func.attr == "copy" and not args:
                return ["Copy", self.expr(e.func.value)]
            if isinstance(e.func, ast.Attribute) and e.func.attr in self.method_names:
                return ["MCall", self.expr(e.func.value), e.func.attr, args]
            if isinstance(e.func, ast.Name):
                f = e.func.id
                if f == "array":
                    if len(e.args) == 1 and isinstance(e.args[0], (ast.GeneratorExp, ast.ListComp)):
                        # array comprehension over a literal range: the elements are the element expression with the
                        # (comprehension-local) variable replaced by 0, 1, ... evaluated left to right
                        return ["Array", [self.expr(x) for x in unroll_comprehension(e.args[0])]]
                    return ["Array", args]
                if f in self.structs:
                    return ["Struct", f, self.structs[f], args]
                if f in BUILTINS and f not in self.top:
                    return ["Builtin", f, args]
                if f in ("result", "panic"):
                    return ["MustReject", f"{f} in expression position"]
            return ["Call", self.expr(e.func), args]
        return ["MustReject", type(e).__name__]


class _Subst(ast.NodeTransformer):
    def __init__(self, name, value):
        self.name, self.value = name, value

    def visit_Name(self, node):
        if node.id == self.name:
            if not isinstance(node.ctx, ast.Load):
                raise Unrepresentable("comprehension variable rebound")
            return ast.copy_location(ast.Constant(self.value), node)
        return node

    def _scope(self, node):
        raise Unrepresentable("nested scope in comprehension element")

    visit_Lambda = visit_GeneratorExp = visit_ListComp = visit_SetComp = visit_DictComp = _scope


def unroll_comprehension(g) -> list:
    """element expressions of `array(elt for v in range(<int literals>))`; other forms are not represented"""
    import copy

    if len(g.generators) != 1:
        raise Unrepresentable("comprehension with several generators")
    gen = g.generators[0]
    if gen.ifs or gen.is_async or not isinstance(gen.target, ast.Name):
        raise Unrepresentable("comprehension with conditions / pattern target")
    it = gen.iter
    if not (isinstance(it, ast.Call) and isinstance(it.func, ast.Name) and it.func.id == "range" and not it.keywords
            and 1 <= len(it.args) <= 3 and all(isinstance(a, ast.Constant) and type(a.value) is int for a in it.args)):
        raise Unrepresentable("comprehension over something else than a literal range")
    ks = list(range(*[a.value for a in it.args]))
    if len(ks) > 16:
        raise Unrepresentable("comprehension too long")
    return [_Subst(gen.target.id, k).visit(copy.deepcopy(g.elt)) for k in ks]


def convert(src: str) -> dict:
    c = Conv(ast.parse(src))
    return {"funcs": c.funcs, "structs": c.structs, "methods": c.methods}


def contains_mustreject(x) -> list:
    out = []
    if isinstance(x, list):
        if x and x[0] in ("MustReject", "TMustReject"):
            out.append(x[1])
        for y in x:
            out += contains_mustreject(y)
    elif isinstance(x, dict):
        for y in x.values():
            out += contains_mustreject(y)
    return out
