"""C29 binding: abstract diagnostic cases <-> the real DiagnosticsRenderer.

A *case* is the JSON form of the record used by spec/Render.tla:
  {id, base, fill, lines, hasSpan, span{sl,sc,el,ec}, title[ids], label[[ids]], msg[[ids]],
   subs[{lvl, hasSpan, span, label, msg}]}
Line shapes are lists over {0 = blank, 1 = letter}; texts are lists of paragraphs of word ids.
`observe(case)` builds the real Diagnostic, renders it with /repo's DiagnosticsRenderer and
projects the output buffer to the row records of the spec (or records the exception).
Nothing here decides whether an output is right - that is Render_Trace's job.
"""
from __future__ import annotations

import random
import re
import traceback

FILE = "<c29>"
LEVEL_TOK = {"Error:": -1, "Note:": -2, "Help:": -3}

# ----------------------------------------------------------------------------------------
# vocabulary: word id -> unique text.  ids 1..180 ordinary words (letters, length 1..12),
# 181..186 words longer than the wrap widths (61..130 letters), 187..192 hyphenated words.
# ----------------------------------------------------------------------------------------
LONG_IDS = range(181, 187)
HYPH_IDS = range(187, 193)
NORMAL_IDS = range(1, 181)


def _mkvocab():
    words, used = {}, set()
    alpha = "abcdefghijklmnopqrstuvwxyz"

    def fresh(length, salt):
        k = salt
        while True:
            s, x = "", k
            for _ in range(length):
                s += alpha[x % 26]
                x = x // 26 + 7 * (len(s) + salt)
            if s not in used and s.lower() not in ("error", "note", "help"):
                used.add(s)
                return s
            k += 1

    for i in NORMAL_IDS:
        # 20 one-letter words at most; the rest 2..12 letters
        length = 1 if i <= 12 else 2 + (i * 7) % 11
        words[i] = fresh(length, i)
    for j, i in enumerate(LONG_IDS):
        words[i] = fresh([61, 62, 81, 85, 100, 130][j], 1000 + i)
    for j, i in enumerate(HYPH_IDS):
        a, b = fresh(3 + j, 2000 + i), fresh(6 + 2 * j, 3000 + i)
        words[i] = a + "-" + b
    return words


WORDS = _mkvocab()
WORD_ID = {w: i for i, w in WORDS.items()}
assert len(WORD_ID) == len(WORDS)


def shape_text(shape, ln):
    ch = chr(ord("a") + (ln % 7))  # letter code 1 + ln % 7  -> 'a'..'g'
    return "".join(" " if x == 0 else ch for x in shape)


def source_text(case):
    lines = [shape_text(case["fill"], ln) for ln in range(1, case["base"] + 1)]
    lines += [shape_text(s, case["base"] + 1 + j) for j, s in enumerate(case["lines"])]
    return "\n".join(lines) + "\n"


def paras_text(paras, rng=None):
    """Text of a list of paragraphs; [[]] is the blank-only text ' '."""
    if paras == [[]]:
        return " "
    out = []
    for p in paras:
        sep = " "
        out.append(sep.join(WORDS[w] for w in p))
    return "\n".join(out)


# ----------------------------------------------------------------------------------------
# case -> real diagnostic objects
# ----------------------------------------------------------------------------------------
def _placeholderise(text, fields, every, tag):
    """Replace every `every`-th word of the text by a {field} placeholder (exercises _render)."""
    if not every or not text.strip():
        return text
    out, k = [], 0

    def sub(m):
        nonlocal k
        k += 1
        if k % every == 0 and "-" not in m.group(0):
            name = f"{tag}{len(fields)}"
            fields[name] = m.group(0)
            return "{" + name + "}"
        return m.group(0)

    return re.sub(r"[A-Za-z\-]+", sub, text)


def build(case):
    import gp  # noqa: F401
    from guppylang_internals.diagnostic import Error, Help, Note
    from guppylang_internals.span import Loc, SourceMap, Span

    sm = SourceMap()
    sm.add_file(FILE, source_text(case))

    def mkspan(s):
        return Span(Loc(FILE, s["sl"], s["sc"]), Loc(FILE, s["el"], s["ec"]))

    every = case.get("ph", 0)
    pfields: dict = {}
    attrs = {"title": _placeholderise(paras_text([case["title"]]), pfields, every, "p")}
    if case["label"]:
        attrs["span_label"] = _placeholderise(paras_text(case["label"]), pfields, every, "p")
    if case["msg"]:
        attrs["message"] = _placeholderise(paras_text(case["msg"]), pfields, every, "p")
    attrs.update(pfields)  # plain class attributes: found by hasattr(self, key)
    cls = type("VerifError", (Error,), attrs)
    diag = cls(mkspan(case["span"]) if case["hasSpan"] else None)
    for j, s in enumerate(case["subs"]):
        sf: dict = {}
        a = {}
        if s["label"]:
            a["span_label"] = _placeholderise(paras_text(s["label"]), sf, every, f"s{j}_")
        if s["msg"]:
            # a sub-diagnostic may also refer to fields of its parent
            a["message"] = _placeholderise(paras_text(s["msg"]), sf, every, f"s{j}_")
        a.update(sf)
        scls = type("VerifSub", (Note if s["lvl"] == "note" else Help,), a)
        diag.add_sub_diagnostic(scls(mkspan(s["span"]) if s["hasSpan"] else None))
    return sm, diag


# ----------------------------------------------------------------------------------------
# output buffer -> rows
# ----------------------------------------------------------------------------------------
_RE_HEAD = re.compile(r"^(\w+:) (.*) \(at (.*):(\d+):(\d+)\)$")
_RE_GUT = re.compile(r"^( *)(\d*) \| (.*)$")
_RE_G = re.compile(r"^( *)(\^+|-+)?( *)(.*)$")


def _row(k, gw=0, no=0, lead=0, n=0, ch=0, gap=0, txt=()):
    return {"k": k, "gw": gw, "no": no, "lead": lead, "n": n, "ch": ch, "gap": gap, "txt": list(txt)}


def _toks(s, first_level=False):
    out = []
    for j, t in enumerate(s.split()):
        if first_level and j == 0 and t in LEVEL_TOK:
            out.append(LEVEL_TOK[t])
        else:
            out.append(WORD_ID.get(t, 0))  # 0 = not a whole word of the vocabulary
    return out


def _chars(s):
    out = []
    for ch in s:
        out.append(0 if ch == " " else (ord(ch) - 96 if "a" <= ch <= "g" else 99))
    return out


def project(buffer, has_span):
    rows = []
    for idx, line in enumerate(buffer):
        if "\n" in line:
            rows.append(_row("junk"))
            continue
        if idx == 0 and has_span:
            m = _RE_HEAD.match(line)
            if m and m.group(3) == FILE and m.group(1) in LEVEL_TOK:
                rows.append(_row("head", no=int(m.group(4)), lead=int(m.group(5)), n=-LEVEL_TOK[m.group(1)],
                                 txt=_toks(m.group(2))))
            else:
                rows.append(_row("junk"))
            continue
        if line == "":
            rows.append(_row("blank"))
            continue
        m = _RE_GUT.match(line)
        if m:
            gw = len(m.group(1)) + len(m.group(2))
            content = m.group(3)
            if m.group(2):
                rows.append(_row("src", gw=gw, no=int(m.group(2)), txt=_chars(content)))
            elif content == "...":
                rows.append(_row("ell", gw=gw))
            else:
                g = _RE_G.match(content)
                lead, marks, gap, rest = len(g.group(1)), g.group(2) or "", len(g.group(3)), g.group(4)
                if not marks:  # blanks before the first word all count as `lead`
                    lead, gap = lead + gap, 0
                if not rest:
                    gap = 0 if not marks else gap
                rows.append(_row("g", gw=gw, lead=lead, n=len(marks), ch=0 if not marks else (1 if marks[0] == "^" else 2),
                                 gap=gap, txt=_toks(rest)))
            continue
        lead = len(line) - len(line.lstrip(" "))
        rows.append(_row("msg", lead=lead, txt=_toks(line, first_level=True)))
    return rows


def raise_site(tb_exc: BaseException) -> str:
    """`relative/file.py:function#<text of the raising line>` of the innermost /repo frame."""
    import lib

    frames = traceback.extract_tb(tb_exc.__traceback__)
    repo = [f for f in frames if f.filename.startswith(lib.REPO)]
    f = (repo or frames)[-1]
    rel = f.filename.split("guppylang_internals/")[-1].split("/src/")[-1]
    return f"{rel}:{f.name}#{(f.line or '').strip()[:60]}"


def observe(case):
    """Render the case with the real code. Returns {"id", "rows": [...], "exc": ""} (total)."""
    import gp  # noqa: F401  (must come first: resolves guppylang_internals to /repo)
    from guppylang_internals.diagnostic import DiagnosticsRenderer

    try:
        sm, diag = build(case)
    except Exception as e:  # building the diagnostic is not the renderer's job
        return {"id": case["id"], "rows": [], "exc": "", "build_error": f"{type(e).__name__}: {e}"}
    try:
        r = DiagnosticsRenderer(sm)
        r.render_diagnostic(diag)
        buf = list(r.buffer)
    except Exception as e:
        return {"id": case["id"], "rows": [], "exc": type(e).__name__, "site": raise_site(e), "msg": str(e)[:200]}
    return {"id": case["id"], "rows": project(buf, case["hasSpan"]), "exc": "", "buffer": buf}


def observe_many(cases):
    return [observe(c) for c in cases]


# ----------------------------------------------------------------------------------------
# seeded random cases (wider than the TLC-enumerated grid: sub-diagnostics, long texts,
# line numbers crossing 9/10 and 99/100, deeper indentation)
# ----------------------------------------------------------------------------------------
INDENTS = [0, 0, 2, 4, 8, 11, 12, 13, 14, 16, 20, 27]


def _rand_shape(rng, indent=None):
    ind = rng.choice(INDENTS) if indent is None else indent
    kind = rng.random()
    if kind < 0.08:
        return []  # empty line
    if kind < 0.13:
        return [0] * ind  # blank-only line
    body = []
    for w in range(rng.randint(1, 3)):
        if w:
            body += [0] * rng.randint(1, 2)
        body += [1] * rng.randint(1, 4)
    if rng.random() < 0.1:
        body += [0]  # trailing blank
    return [0] * ind + body


def _rand_paras(rng, nwords, vocab, allow_empty_para=False, nparas=1):
    paras = []
    for p in range(nparas):
        k = nwords if nparas == 1 else max(1, nwords // nparas)
        paras.append([rng.choice(vocab) for _ in range(k)])
    if allow_empty_para and len(paras) >= 2 and rng.random() < 0.5:
        paras.insert(1, [])
    return paras


def _rand_span(rng, case, inside_ws, nonzero=False):
    for _ in range(50):
        sp = _rand_span1(rng, case, inside_ws)
        if not nonzero or (sp["sl"], sp["sc"]) != (sp["el"], sp["ec"]):
            return sp
    return None


def _rand_span1(rng, case, inside_ws):
    n = case["base"] + len(case["lines"])

    def shape(ln):
        return case["fill"] if ln <= case["base"] else case["lines"][ln - case["base"] - 1]

    def ind(s):
        j = 0
        while j < len(s) and s[j] == 0:
            j += 1
        return j

    lo = case["base"] + 1 if rng.random() < 0.85 else max(1, case["base"] - 1)
    sl = rng.randint(lo, n)
    el = sl if rng.random() < 0.55 else rng.randint(sl, n)

    def col(ln, least=0):
        s = shape(ln)
        lo_c = 0 if inside_ws else min(ind(s), len(s))
        lo_c = max(lo_c, least)
        return rng.randint(lo_c, len(s)) if lo_c <= len(s) else len(s)

    sc = col(sl)
    ec = col(el, sc if sl == el else 0)
    if sl == el and ec < sc:
        ec = sc
    return {"sl": sl, "sc": sc, "el": el, "ec": ec}


def random_case(rng: random.Random, cid: int, profile: str = "plain"):
    """profile: plain (letters-only words, spans start at or after the indentation),
    ws (spans may start/end inside leading blanks), long (over-long words), hyph (hyphenated
    words), blanktext (a blank-only label or message), nospan, zerosub (sub-diagnostics may have
    zero-width spans; in all other profiles only the primary span may be empty)."""
    vocab = list(NORMAL_IDS)
    if profile == "long":
        vocab = list(NORMAL_IDS)[:40] + list(LONG_IDS) * 3
    if profile == "hyph":
        vocab = list(HYPH_IDS) * 4 + list(NORMAL_IDS)[:30]
    base = rng.choice([0, 0, 0, 1, 2, 6, 7, 8, 9, 96, 97, 98, 99, 998])
    common = rng.choice([None, None, 12, 13, 14, 16, 24])
    nl = rng.randint(1, 4)
    lines = []
    for _ in range(nl):
        if common is not None and rng.random() < 0.8:
            lines.append(_rand_shape(rng, common + rng.choice([0, 0, 1, 4, 8])))
        else:
            lines.append(_rand_shape(rng))
    fill = rng.choice([[1, 1], [0, 0, 0, 0, 1, 1], [0] * 14 + [1], [0] * 13 + [1, 0, 1], []])
    case = {"id": cid, "base": base, "fill": fill, "lines": lines, "hasSpan": profile != "nospan",
            "title": [rng.choice(list(NORMAL_IDS)) for _ in range(rng.randint(1, 5))],
            "label": [], "msg": [], "subs": [], "ph": rng.choice([0, 0, 2, 3]), "profile": profile}
    ws = profile == "ws"
    case["span"] = _rand_span(rng, case, ws)
    lw = rng.choice([0, 1, 2, 5, 9, 14, 22, 30])
    if lw and profile != "nospan":  # a label without a span is refused by Diagnostic.__post_init__
        case["label"] = _rand_paras(rng, lw, vocab, nparas=rng.choice([1, 1, 1, 2]))
    mw = rng.choice([0, 0, 1, 3, 12, 20, 30])
    if mw or profile == "nospan" and rng.random() < 0.7:
        case["msg"] = _rand_paras(rng, max(mw, 1), vocab, allow_empty_para=True, nparas=rng.choice([1, 1, 2, 3]))
    if profile == "blanktext":
        if rng.random() < 0.5 and case["hasSpan"]:
            case["label"] = [[]]
        else:
            case["msg"] = [[]]
    if profile != "nospan":
        for _ in range(rng.choice([0, 0, 1, 1, 2])):
            has = rng.random() < 0.6
            sub = {"lvl": rng.choice(["note", "help"]), "hasSpan": has, "span": {"sl": 1, "sc": 0, "el": 1, "ec": 0},
                   "label": [], "msg": []}
            if has:
                sp = _rand_span(rng, case, ws, nonzero=profile != "zerosub")
                if sp is None:
                    continue
                if profile == "zerosub" and rng.random() < 0.6:
                    sp["el"], sp["ec"] = sp["sl"], sp["sc"]
                sub["span"] = sp
                k = rng.choice([0, 1, 4, 12, 25])
                if k:
                    sub["label"] = _rand_paras(rng, k, vocab)
            if not has or rng.random() < 0.25:
                sub["msg"] = _rand_paras(rng, rng.choice([1, 4, 15, 30]), vocab, allow_empty_para=True,
                                         nparas=rng.choice([1, 1, 2]))
            case["subs"].append(sub)
    return case


def spec_view(case):
    """The fields the spec reads (drops harness-only keys)."""
    keep = ("id", "base", "fill", "lines", "hasSpan", "span", "title", "label", "msg", "subs")
    out = {k: case[k] for k in keep}
    out["subs"] = [{k: s[k] for k in ("lvl", "hasSpan", "span", "label", "msg")} for s in case["subs"]]
    return out
