"""Setup smoke test: shim resolves to /repo, compile + validate + interpret a small program."""
import gp
from hugr_interp import Interp

m = gp.load('''
@guppy
def main(n: int) -> int:
    q = qubit()
    x(q)
    b = measure(q)
    acc = 0
    for i in range(n):
        if i % 2 == 0:
            acc += i
        result("i", i)
    result("b", b)
    return acc
''')
pkg = m.main.compile_function()
gp.validate(pkg)
out = Interp(pkg.modules[0]).run("main", [5])
ev = [e for e in out["events"] if e[0] == "result"]
assert ev == [("result", "i", "int", i) for i in range(5)] + [("result", "b", "bool", True)], ev
assert out["outputs"] == [6], out
print("smoke ok")
