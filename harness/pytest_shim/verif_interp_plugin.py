"""pytest plugin: run /repo's integration tests against /repo's sources with
 - validation by hugr.cli.validate instead of selene's check_hugr
 - run_int_fn / run_nat_fn / run_float_fn_approx executed by the reference HUGR interpreter
This calibrates the interpreter against the expected values written in /repo's tests.
"""
import os, sys
sys.path.insert(0, os.path.join(os.path.dirname(os.path.abspath(__file__)), ".."))
import pytest


def _emulate_fn(ty):
    from guppylang.decorator import guppy
    from guppylang.std.builtins import result
    from guppylang.std.num import nat
    from hugr_interp import Interp

    def f(fn, expected, num_qubits=None, args=None):
        args = args or []

        @guppy.comptime
        def int_entry() -> None:
            o: int = fn(*args)
            result("_test_output", o)

        @guppy.comptime
        def nat_entry() -> None:
            o: nat = fn(*(nat(arg) for arg in args))
            result("_test_output", o)

        @guppy.comptime
        def flt_entry() -> None:
            o: float = fn(*args)
            result("_test_output", o)

        entry = {"int": int_entry, "nat": nat_entry, "float": flt_entry}[ty]
        pkg = entry.compile()
        h = pkg.modules[0]
        ename = {"int": "int_entry", "nat": "nat_entry", "float": "flt_entry"}[ty]
        sched = os.environ.get("VERIF_INTERP_SCHED", "min")
        out = Interp(h, sched=sched, seed=42).run(ename, [])
        if "panic" in out:
            raise RuntimeError(f"panic: {out['panic']}")
        num = next(e[3] for e in out["events"] if e[0] == "result" and e[1] == "_test_output")
        if num != expected:
            from tests.integration import conftest as c
            raise c.LLVMException(f"Expected value ({expected}) doesn't match actual value ({num})")

    return f


def _check_hugr(b):
    import hugr.cli
    hugr.cli.validate(b)


def pytest_collection_modifyitems(session, config, items):
    for name, m in list(sys.modules.items()):
        if name.endswith("integration.conftest"):
            m._emulate_fn = _emulate_fn
            m.check_hugr = _check_hugr
