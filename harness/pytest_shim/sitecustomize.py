# Activates the dependency shim for a pytest run of /repo's own tests against /repo's sources.
import os, sys
sys.path.insert(0, os.path.join(os.path.dirname(os.path.abspath(__file__)), "..", "compat"))
import verif_compat  # noqa
