"""C06/C01: evaluate a batch of programs with TLC (spec/Linearity.tla) and with /repo."""
from __future__ import annotations

import json
import os

import lib
import lin_ast as A

# witness kind -> diagnostic classes of /repo that may report it (checker/errors/linearity.py)
COMPAT = {
    "use_moved": {"AlreadyUsedError"},
    "leak": {"PlaceNotUsedError"},
    "overwrite": {"PlaceNotUsedError"},
    "borrowed_moved": {"NotOwnedError"},
    "borrowed_unrestored": {"BorrowSubPlaceUsedError"},
    "borrow_shadowed": {"BorrowShadowedError"},
    "temp_borrow": {"DropAfterCallError"},
    "temp_expr": {"UnnamedExprNotUsedError"},
    "temp_proj": {"UnnamedFieldNotUsedError", "UnnamedTupleNotUsedError"},
}
# witnesses outside linearity proper: any located user error is a compatible rejection
LOOSE = {"use_undef", "missing_return"}
LINEARITY_DIAGS = set().union(*COMPAT.values())


def spec_verdicts(ctx, progs, tag="batch", chunk=4000):
    """{prog id: sorted list of (kind, place, at)}; every program must report `done`."""
    ver: dict = {}
    for c0 in range(0, len(progs), chunk):
        part = progs[c0:c0 + chunk]
        path = os.path.join(ctx.workdir, f"lin_{tag}_{c0}.json")
        with open(path, "w") as f:
            json.dump(A.batch(part), f)
        r = ctx.tlc("Linearity", env={"VERIF_IN": path}, timeout=1500)
        if not r.ok:
            raise lib.Machinery(f"Linearity.tla failed on batch {tag}/{c0}:\n{r.error or r.out[-2000:]}")
        done = set()
        for p in r.printed:
            if p.get("done"):
                done.add(p["id"])
            for x in p.get("w", []):
                ver.setdefault(p["id"], set()).add((x["kind"], ".".join(x["p"]), x["at"]))
        missing = [p["id"] for p in part if p["id"] not in done]
        if missing:
            raise lib.Machinery(f"Linearity.tla did not finish programs {missing[:10]} of batch {tag}/{c0}")
        os.unlink(path)
    return {p["id"]: sorted(ver.get(p["id"], ())) for p in progs}


def job(prog):
    src, linemap = A.render(prog)
    return {"id": prog["id"], "src": src, "entry": "main"}


def outcome(life: dict) -> dict:
    """normalise a lifecycle record (lin_life.life_job): status ok | rejected | check-crash | machinery;
    `lower` = key of a compile / validate failure after the checker accepted"""
    import lin_life

    if life.get("machinery") or not life["ev"]:
        return {"status": "machinery", "error": life.get("machinery")}
    e = life["ev"][0]
    if e["out"] == "rejected":
        return {"status": "rejected", "error": {"diag": e.get("cls"), "title": e.get("msg")}}
    if e["out"] != "ok":
        return {"status": "check-crash", "error": {"class": e.get("cls"), "where": e.get("where"), "msg": e.get("msg")}}
    return {"status": "ok", "lower": lin_life.key_of(life),
            "error": next((x for x in life["ev"] if x["out"] in ("exc", "err")), None)}


def judge(prog, wits, res):
    """Compare the specification's verdict with /repo's outcome.
    Returns None (agree) or (category, text)."""
    st = res["status"]
    kinds = {w[0] for w in wits}
    if st == "machinery":
        raise lib.Machinery(f"harness failure on program {prog['id']}: {res.get('error')}\n{A.render(prog)[0]}")
    if st == "check-crash":
        e = res["error"]
        return (f"checker-crash:{e['class']}:{e['where']}", f"the checker neither accepts nor rejects: {e}")
    if st == "ok":
        # the checker accepted; a lowering failure afterwards is also how a missed linearity
        # violation shows (dangling or doubly connected qubit wire)
        if kinds:
            extra = f" (lowering then fails: {res['lower']})" if res.get("lower") else ""
            return ("unsound", f"/repo's checker accepts; specification has witnesses {sorted(wits)[:4]}{extra}")
        if res.get("lower"):
            return ("lowering:" + res["lower"], f"checker accepted, then {res['error']}")   # C01's business
        return None
    assert st == "rejected", st
    diag = res["error"].get("diag") or res["error"].get("class")
    if not kinds:
        return ("incomplete:" + str(diag), f"specification accepts (no witness on any path); /repo rejects with {diag}: "
                                           f"{res['error'].get('title')}")
    if kinds & LOOSE:
        return None
    allowed = set().union(*(COMPAT[k] for k in kinds))
    if diag not in allowed:
        return ("wrong-error:" + str(diag), f"/repo rejects with {diag}; witnesses {sorted(wits)[:4]} allow {sorted(allowed)}")
    return None


def evaluate(ctx, progs, tag="batch"):
    """[(prog, witnesses, /repo result, judgement)] for every program"""
    import lin_life
    import pool

    ver = spec_verdicts(ctx, progs, tag)
    res = pool.map_jobs(lin_life.life_job, [job(p) for p in progs], chunksize=8, procs=1 if len(progs) < 48 else None)
    res = [outcome(r) for r in res]
    return [(p, ver[p["id"]], r, judge(p, ver[p["id"]], r)) for p, r in zip(progs, res)]


# --------------------------------------------------------------------------------------
# shrinking a disagreeing program (for triage; every candidate is re-judged by TLC and /repo)
# --------------------------------------------------------------------------------------
def _walk(stmts, path=()):
    for i, s in enumerate(stmts):
        yield path, i, s
        if s["k"] == "if":
            yield from _walk(s["then"], path + (i, "then"))
            yield from _walk(s["else"], path + (i, "else"))
        elif s["k"] == "while":
            yield from _walk(s["body"], path + (i, "body"))


def _get(body, path):
    cur = body
    for j in range(0, len(path), 2):
        cur = cur[path[j]][path[j + 1]]
    return cur


def _has_loop_jump(stmts):
    for s in stmts:
        if s["k"] in ("break", "continue"):
            return True
        if s["k"] == "if" and (_has_loop_jump(s["then"]) or _has_loop_jump(s["else"])):
            return True
    return False


def shrink_candidates(prog):
    out = []
    for path, i, s in list(_walk(prog["body"])):
        variants = [[]]
        if s["k"] == "if":
            variants += [s["then"], s["else"]]
        elif s["k"] == "while" and not _has_loop_jump(s["body"]):
            variants += [s["body"]]
        for v in variants:
            c = A.clone(prog)
            lst = _get(c["body"], path)
            lst[i:i + 1] = A.clone(v)
            out.append(c)
    # drop unused variables (keeps the rendering small)
    return out


def shrink(ctx, prog, test, rounds=8):
    """Greedy: while some single deletion / unwrapping still fails the same way.
    test(ctx, [programs]) -> [bool]  (True = still shows the disagreement)"""
    import lin_gen

    cur = prog
    for rd in range(rounds):
        cands = shrink_candidates(cur)
        for n, c in enumerate(cands):
            lin_gen.strip_dead(c["body"])
            c["id"] = n
            A.number(c)
        if not cands:
            break
        try:
            ok = test(ctx, cands)
        except lib.Machinery:
            break
        good = [p for p, f in zip(cands, ok) if f]
        if not good:
            break
        cur = min(good, key=lambda p: p["nstmts"])
    used = set()

    def names(x):
        if isinstance(x, dict):
            if x.get("e") == "place":
                used.add(x["p"][0])
            if "tgts" in x:
                used.update(t[0] for t in x["tgts"])
            for v in x.values():
                names(v)
        elif isinstance(x, list):
            for v in x:
                names(v)

    names(cur["body"])
    small = A.clone(cur)
    small["vars"] = {n: v for n, v in cur["vars"].items() if n in used or n in cur["params"]}
    small["id"] = 0
    A.number(small)
    try:
        if test(ctx, [small])[0]:
            return small
    except lib.Machinery:
        pass
    return cur


def same_category(category):
    def test(ctx, progs):
        return [j is not None and j[0] == category for p, w, r, j in evaluate(ctx, progs, tag="shrink")]
    return test
