"""Compile Guppy source from /repo's tree and execute it on the reference interpreter.

job = {"src": str, "entry": str, "args": [[py values]...] (one list per run),
       "validate": bool, "scheds": ["min","max","rand:3"], "experimental": bool,
       "prelude": optional str, "budget": int}
result = {"status": "ok"|"rejected"|"crash"|"invalid", ...}

Python values <-> interpreter values: int -> 64-bit pattern, bool -> tket.bool, float,
list -> array, tuple -> HUGR tuple.  Results come back as JSON-friendly event lists.
"""
from __future__ import annotations

import random
import traceback

import gp
from hugr_interp import ArrV, Budget, Interp, InterpError, Qubit, SumV, Unsupported, to_signed


def to_interp(v):
    if isinstance(v, bool):
        return v
    if isinstance(v, int):
        return v & ((1 << 64) - 1)
    if isinstance(v, float):
        return v
    if isinstance(v, list):
        return ArrV(tuple(to_interp(x) for x in v))
    if isinstance(v, tuple):
        return SumV(0, tuple(to_interp(x) for x in v))
    raise TypeError(v)


def from_interp(v, signed=True):
    if isinstance(v, bool):
        return v
    if isinstance(v, int):
        return to_signed(v) if signed else v
    if isinstance(v, float):
        return v
    if isinstance(v, ArrV):
        return [from_interp(x, signed) for x in v.cells]
    if isinstance(v, SumV):
        if v.tag == 0 and True:
            return {"sum": v.tag, "vals": [from_interp(x, signed) for x in v.vals]}
        return {"sum": v.tag, "vals": [from_interp(x, signed) for x in v.vals]}
    if isinstance(v, Qubit):
        return {"qubit": v.id}
    return repr(v)


def jsonable_events(events):
    out = []
    for e in events:
        if e[0] == "state_result":
            amps = e[3]
            out.append(["state_result", e[1], list(e[2]),
                        None if amps is None else [[a.real, a.imag] for a in amps]])
        else:
            # event payloads are already Python-level values (ints signed/unsigned per result kind)
            out.append([x if isinstance(x, (str, list, bool, int, float)) or x is None else
                        (list(x) if isinstance(x, tuple) else from_interp(x)) for x in e])
    return out


def make_sched(spec: str, seed: int):
    if spec in ("min", "max"):
        return spec
    if spec.startswith("rand"):
        k = int(spec.split(":")[1]) if ":" in spec else 0
        return random.Random(seed * 1000 + k)
    raise ValueError(spec)


def classify_exception(e: BaseException) -> dict:
    from guppylang_internals.error import GuppyError, InternalGuppyError

    name = type(e).__name__
    if isinstance(e, GuppyError):
        d = e.error
        return {"class": "GuppyError", "title": getattr(d, "rendered_title", None) or getattr(d, "title", ""),
                "diag": type(d).__name__}
    if isinstance(e, InternalGuppyError):
        return {"class": "InternalGuppyError", "msg": str(e)[:300]}
    mro = [c.__name__ for c in type(e).__mro__]
    if "GuppyComptimeError" in mro or "GuppyTypeError" in mro:
        return {"class": name, "msg": str(e)[:300]}
    return {"class": name, "msg": str(e)[:300], "tb": traceback.format_exc()[-1500:]}


def compile_src(src: str, entry: str, *, experimental: bool = False, prelude: str | None = None):
    """Returns (module, package) or raises."""
    import guppylang_internals.experimental as ex

    mod = gp.load(src, prelude=prelude if prelude is not None else gp.PRELUDE)
    prev = ex.EXPERIMENTAL_FEATURES_ENABLED
    ex.EXPERIMENTAL_FEATURES_ENABLED = experimental
    try:
        d = getattr(mod, entry)
        pkg = d.compile_function() if hasattr(d, "compile_function") else d.compile()
    finally:
        ex.EXPERIMENTAL_FEATURES_ENABLED = prev
    return mod, pkg


def run_job(job: dict) -> dict:
    """Total: never raises."""
    from guppylang_internals.error import GuppyError

    res: dict = {"id": job.get("id")}
    mod = None
    try:
        try:
            mod, pkg = compile_src(job["src"], job["entry"], experimental=job.get("experimental", False),
                                   prelude=job.get("prelude"))
        except GuppyError as e:
            res.update(status="rejected", error=classify_exception(e))
            try:
                res["rendered"] = render_error(e)
            except Exception as e2:  # rendering failure is itself an observation
                res["render_crash"] = classify_exception(e2)
            return res
        except SyntaxError as e:
            res.update(status="syntax", error={"class": "SyntaxError", "msg": str(e)})
            return res
        except Exception as e:
            c = classify_exception(e)
            res.update(status="rejected" if c["class"] in ("GuppyComptimeError", "GuppyTypeError") else "crash", error=c)
            return res
        if job.get("validate", True):
            try:
                gp.validate(pkg)
                res["valid"] = True
            except Exception as e:
                res.update(status="invalid", error={"class": type(e).__name__, "msg": validation_msg(e)})
                return res
        res["status"] = "ok"
        h = pkg.modules[0]
        runs = []
        for args in job.get("args", []):
            for sp in job.get("scheds", ["min"]):
                r = {"args": args, "sched": sp}
                try:
                    it = Interp(h, sched=make_sched(sp, job.get("seed", 0)), seed=job.get("seed", 0),
                                budget=job.get("budget", 300_000))
                    out = it.run(job["entry"], [to_interp(a) for a in args])
                    r["events"] = jsonable_events(out["events"])
                    if "outputs" in out:
                        r["outputs"] = [from_interp(v) for v in out["outputs"]]
                        r["outputs_u"] = [from_interp(v, False) for v in out["outputs"]]
                    r["end"] = "panic" if "panic" in out else "exit" if "exit" in out else "return"
                except Budget as e:
                    r["end"] = "budget"
                except Unsupported as e:
                    r["end"] = "unsupported"
                    r["msg"] = str(e)
                except InterpError as e:
                    r["end"] = "interp_error"
                    r["msg"] = str(e)
                runs.append(r)
        res["runs"] = runs
        return res
    except BaseException as e:  # noqa: BLE001
        res.update(status="machinery", error={"class": type(e).__name__, "msg": str(e)[:500], "tb": traceback.format_exc()[-2000:]})
        return res
    finally:
        if mod is not None:
            gp.unload(mod)


def validation_msg(e: Exception) -> str:
    s = str(e)
    i = s.find("Caused by")
    j = s.find("Stack backtrace")
    return s[i:j if j > 0 else i + 800][:800] if i >= 0 else s[:800]


def render_error(e) -> str:
    from guppylang_internals.diagnostic import DiagnosticsRenderer
    from guppylang_internals.engine import DEF_STORE

    r = DiagnosticsRenderer(DEF_STORE.sources)
    r.render_diagnostic(e.error)
    return "\n".join(r.buffer)
