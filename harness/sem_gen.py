"""Seeded generator of well-typed classical Guppy programs (fragment of property C03):
bool/int/float values, tuples, structs, arrays; if/elif/else, while, for over range and
arrays, break/continue/return, conditional expressions, walrus, augmented and unpacking
assignments, calls between top-level functions, non-capturing nested functions, unreachable
code.  Every variable keeps one type, so the programs are accepted by construction (if Guppy
rejects one, the check reports it separately: it is a generator/typing matter, not C03).

Shapes the property calls out are favoured: two same-typed variables live across block
boundaries with different values, variables live on one successor only, loops with several exits.
"""
from __future__ import annotations

import random

HEADER = """
@guppy.struct
class P:
    x: int
    y: int

@guppy
def h0(v: int) -> int:
    result("h0", v)
    return v * 2 + 1

@guppy
def h1(v: int, q: bool) -> int:
    result("h1", v)
    if q:
        return v - 3
    return 0 - v

@guppy
def hb(v: int) -> bool:
    result("hb", v)
    return v % 2 == 0
"""


class G:
    def __init__(self, rng: random.Random, effects: float = 0.25):
        self.r = rng
        self.effects = effects  # probability of using a result-reporting call in expressions
        self.tmp = 0
        self.loopvar = 0

    # ---- expressions -------------------------------------------------------------------------
    def iexpr(self, env, d=0):
        r = self.r.random()
        ints = [v for v, t in env.items() if t == "int"]
        if d >= 3 or r < 0.25:
            return str(self.r.randint(-3, 6)) if (not ints or self.r.random() < 0.3) else self.r.choice(ints)
        if r < 0.45:
            op = self.r.choice(["+", "-", "+", "-", "*"])
            if op == "*":
                return f"({self.iexpr(env, d + 1)} * {self.r.randint(-2, 3)})"
            return f"({self.iexpr(env, d + 1)} {op} {self.iexpr(env, d + 1)})"
        if r < 0.53:
            return f"({self.iexpr(env, d + 1)} {self.r.choice(['//', '%'])} {self.r.choice([2, 3, 4, 5])})"
        if r < 0.58:
            return f"(-{self.iexpr(env, d + 1)})"
        if r < 0.66:
            return f"({self.iexpr(env, d + 1)} if {self.bexpr(env, d + 1)} else {self.iexpr(env, d + 1)})"
        if r < 0.66 + self.effects:
            f = self.r.choice(["h0", "h1", "h0"])
            if f == "h0":
                return f"h0({self.iexpr(env, d + 1)})"
            return f"h1({self.iexpr(env, d + 1)}, {self.bexpr(env, d + 1)})"
        if "xs" in env and r < 0.95:
            return f"xs[{self.iexpr(env, d + 2)} % 3]"
        if "s" in env:
            return self.r.choice(["s.x", "s.y"])
        return self.r.choice(ints) if ints else "1"

    def bexpr(self, env, d=0):
        r = self.r.random()
        bools = [v for v, t in env.items() if t == "bool"]
        if d >= 3 or r < 0.2:
            return self.r.choice(bools) if bools and self.r.random() < 0.8 else self.r.choice(["True", "False"])
        if r < 0.5:
            op = self.r.choice(["<", "<=", ">", ">=", "==", "!="])
            return f"{self.iexpr(env, d + 1)} {op} {self.iexpr(env, d + 1)}"
        if r < 0.6:
            ops = [self.r.choice(["<", "<=", ">", ">="]) for _ in range(self.r.randint(2, 3))]
            s = self.iexpr(env, d + 1)
            for o in ops:
                s += f" {o} {self.iexpr(env, d + 1)}"
            return s
        if r < 0.75:
            return f"({self.bexpr(env, d + 1)} {self.r.choice(['and', 'or'])} {self.bexpr(env, d + 1)})"
        if r < 0.83:
            return f"(not {self.bexpr(env, d + 1)})"
        if r < 0.83 + self.effects / 2:
            return f"hb({self.iexpr(env, d + 1)})"
        if r < 0.95 and [v for v, t in env.items() if t == "float"]:
            fs = [v for v, t in env.items() if t == "float"]
            return f"{self.r.choice(fs)} {self.r.choice(['<', '>='])} {self.fexpr(env, d + 1)}"
        return self.r.choice(bools) if bools else "True"

    def fexpr(self, env, d=0):
        r = self.r.random()
        fs = [v for v, t in env.items() if t == "float"]
        if d >= 2 or r < 0.35:
            return self.r.choice(fs) if fs and self.r.random() < 0.7 else self.r.choice(["0.5", "1.5", "2.0", "-0.25"])
        if r < 0.7:
            return f"({self.fexpr(env, d + 1)} {self.r.choice(['+', '-'])} {self.fexpr(env, d + 1)})"
        if r < 0.85:
            return f"({self.fexpr(env, d + 1)} * 2.0)"
        return f"float({self.iexpr(env, d + 1)})"

    def expr(self, t, env):
        return {"int": self.iexpr, "bool": self.bexpr, "float": self.fexpr}[t](env)

    # ---- statements ----------------------------------------------------------------------------
    def block(self, env, depth, budget, in_loop, tagp):
        out = []
        env = dict(env)
        n = self.r.randint(1, 4)
        for _ in range(n):
            if budget[0] <= 0:
                break
            budget[0] -= 1
            r = self.r.random()
            scal = [v for v, t in env.items() if t in ("int", "bool", "float") and not v.startswith("k")]
            if r < 0.22:
                v = self.r.choice(scal)
                out.append(f"{v} = {self.expr(env[v], env)}")
            elif r < 0.30:
                ints = [v for v, t in env.items() if t == "int" and not v.startswith("k")]
                v = self.r.choice(ints)
                out.append(f"{v} {self.r.choice(['+=', '-=', '*='])} {self.r.randint(1, 3) if self.r.random() < 0.5 else self.iexpr(env, 2)}")
            elif r < 0.42:
                t = self.r.choice(["int", "int", "bool", "float"])
                out.append(f"result(\"{tagp}{self.r.randint(0, 9)}\", {self.expr(t, env)})")
            elif r < 0.47:
                ints = [v for v, t in env.items() if t == "int" and not v.startswith("k")]
                if len(ints) >= 2:
                    a, b = self.r.sample(ints, 2)
                    out.append(self.r.choice([f"{a}, {b} = {b}, {a}", f"{a}, {b} = ({self.iexpr(env, 2)}, {a})"]))
            elif r < 0.52 and "xs" in env:
                out.append(f"xs[{self.iexpr(env, 2)} % 3] = {self.iexpr(env, 1)}")
            elif r < 0.55 and "xs" in env:
                out.append(f"result(\"{tagp}a\", xs)")
            elif r < 0.58 and "s" in env:
                out.append(self.r.choice([f"s = P({self.iexpr(env, 1)}, {self.iexpr(env, 1)})",
                                          f"result(\"{tagp}s\", s.x - s.y)"]))
            elif r < 0.62:
                # variable that lives on one successor only
                self.tmp += 1
                v = f"w{self.tmp}"
                t = self.r.choice(["int", "bool"])
                out.append(f"if {self.bexpr(env)}:")
                out.append(f"    {v} = {self.expr(t, env)}")
                out.append(f"    result(\"{tagp}w\", {v})")
            elif r < 0.74 and depth < 3:
                out.append(f"if {self.cond(env)}:")
                out += ["    " + l for l in self.block(env, depth + 1, budget, in_loop, tagp)]
                for _ in range(self.r.choice([0, 0, 1])):
                    out.append(f"elif {self.cond(env)}:")
                    out += ["    " + l for l in self.block(env, depth + 1, budget, in_loop, tagp)]
                if self.r.random() < 0.6:
                    out.append("else:")
                    out += ["    " + l for l in self.block(env, depth + 1, budget, in_loop, tagp)]
            elif r < 0.82 and depth < 2:
                self.loopvar += 1
                k = f"k{self.loopvar}"
                out.append(f"{k} = 0")
                out.append(f"while {k} < {self.r.randint(1, 4)}{' and ' + self.bexpr(env, 2) if self.r.random() < 0.4 else ''}:")
                out.append(f"    {k} += 1")
                e2 = dict(env)
                e2[k] = "int"
                out += ["    " + l for l in self.block(e2, depth + 1, budget, True, tagp)]
            elif r < 0.88 and depth < 2:
                self.loopvar += 1
                i = f"i{self.loopvar}"
                e2 = dict(env)
                e2[i] = "int"
                if "xs" in env and self.r.random() < 0.4:
                    out.append(f"for {i} in xs.copy():")
                else:
                    a = [str(self.r.randint(0, 4))]
                    if self.r.random() < 0.4:
                        a = [str(self.r.randint(-2, 2)), str(self.r.randint(0, 5))]
                        if self.r.random() < 0.5:
                            a.append(str(self.r.choice([1, 2, -1, 3])))
                    out.append(f"for {i} in range({', '.join(a)}):")
                out += ["    " + l for l in self.block(e2, depth + 1, budget, True, tagp)]
            elif r < 0.92 and in_loop:
                out.append(f"if {self.bexpr(env)}:")
                out.append("    " + self.r.choice(["break", "continue"]))
            elif r < 0.95:
                out.append(f"if {self.bexpr(env)}:")
                out.append(f"    return {self.iexpr(env, 1)}")
                if self.r.random() < 0.3:  # unreachable code after return
                    out.append(f"    result(\"{tagp}u\", 0)")
            elif r < 0.975 and depth == 0:
                self.tmp += 1
                fn = f"nf{self.tmp}"
                out.append(f"def {fn}(z: int, y: bool) -> int:")
                out.append(f"    if y:")
                out.append(f"        return z + {self.r.randint(1, 3)}")
                out.append(f"    return z * 2")
                ints = [v for v, t in env.items() if t == "int" and not v.startswith("k")]
                out.append(f"{self.r.choice(ints)} = {fn}({self.iexpr(env, 2)}, {self.bexpr(env, 2)})")
            else:
                out.append(f"if (y9 := {self.iexpr(env, 1)}) > {self.r.randint(-1, 3)}:")
                out.append(f"    result(\"{tagp}y\", y9)")
        return out or ["pass"]

    def cond(self, env):
        return self.bexpr(env)

    def program(self, size=10, arrays=True, structs=True, floats=True):
        env = {"a": "int", "b": "int", "p": "bool", "x0": "int", "x1": "int", "q0": "bool"}
        pre = ["x0 = a + 1", "x1 = b", "q0 = not p"]
        if floats:
            env["f0"] = "float"
            pre.append("f0 = 1.5")
        if arrays and self.r.random() < 0.6:
            env["xs"] = "arr"
            pre.append("xs = array(a, b, 7)")
        if structs and self.r.random() < 0.4:
            env["s"] = "struct"
            pre.append("s = P(a, 2)")
        body = pre + self.block(env, 0, [size], False, "m")
        for v in ("x0", "x1"):
            body.append(f"result(\"{v}\", {v})")
        body.append("result(\"q0\", q0)")
        if "f0" in env:
            body.append("result(\"f0\", f0)")
        if "xs" in env:
            body.append("result(\"xs\", xs)")
        body.append("return x0 - x1")
        return HEADER + "\n@guppy\ndef main(a: int, b: int, p: bool) -> int:\n" + "\n".join("    " + l for l in body) + "\n"


ARGS = [
    [["int", 0], ["int", 1], ["bool", 1]],
    [["int", 3], ["int", -2], ["bool", 0]],
    [["int", -5], ["int", 7], ["bool", 1]],
    [["int", 2], ["int", 2], ["bool", 0]],
    [["int", 11], ["int", -9], ["bool", 0]],
    [["int", -1], ["int", 0], ["bool", 1]],
]


def programs(seed, n, nargs=4, effects=0.25, **kw):
    rng = random.Random(seed)
    out, seen = [], set()
    while len(out) < n:
        g = G(rng, effects)
        src = g.program(size=rng.randint(5, 12), **kw)
        if src in seen:
            continue
        seen.add(src)
        out.append({"id": f"gen{seed}_{len(out)}", "src": src, "entry": "main", "args": ARGS[:nargs]})
    return out
