"""Guppy functions ("forms") for the numeric checks and their execution on the reference
interpreter.  A form is one (operator | builtin, operand types, syntactic shape) combination:

    {"op", "ta", "tb", "blit", "style", "lit", "expr", "params", "sel"}

`build_forms` enumerates candidates; `run_forms_job` (a pool job) finds each candidate's
result type by checking it against return annotations bool, nat, int, float in that order
(first accepted = exact type, because implicit coercion only widens), compiles it ONCE from
/repo's sources and calls it on every operand tuple; each call is one event record for
spec/NumOps_Trace.tla.
"""
from __future__ import annotations

import random

import num_values as nv

BINOPS = ["+", "-", "*", "/", "//", "%", "**", "<<", ">>", "&", "|", "^", "==", "!=", "<", "<=", ">", ">="]
NUM = ["nat", "int", "float"]
INT_LITS = [1, 3, -2, 63, nv.MAXI, nv.MAXU]
FLOAT_LITS = [2.5, -0.75, 4.0]
UNARY = [("neg", "-a"), ("pos", "+a"), ("inv", "~a"), ("not", "not a"), ("abs", "abs(a)"), ("int", "int(a)"),
         ("nat", "nat(a)"), ("float", "float(a)"), ("bool", "bool(a)"), ("floor", "a.__floor__()"),
         ("ceil", "a.__ceil__()"), ("trunc", "a.__trunc__()")]
SCALAR_RETS = ["bool", "nat", "int", "float"]
TUPLE_RETS = ["tuple[nat, nat]", "tuple[int, int]", "tuple[float, float]"]


def lit_src(v) -> str:
    # parenthesised: `-2 ** b` is -(2 ** b) in Python; `(-2)` is still folded into one constant
    return repr(v) if v >= 0 else f"({v!r})"


def build_forms(tier: str = "thorough") -> list[dict]:
    """All candidate forms (accepted or not is decided by the compiler). The quick tier uses
    fewer literal operands."""
    fs: list[dict] = []
    int_lits = [3, -2, nv.MAXI] if tier == "quick" else INT_LITS
    float_lits = [2.5] if tier == "quick" else FLOAT_LITS

    def add(op, ta, tb, expr, params, style, blit=0, lit=None, sel=None, stmts=None, rets=None):
        fs.append({"op": op, "ta": ta, "tb": tb, "blit": blit, "lneg": 1 if (blit and lit < 0) else 0,
                   "style": style, "lit": lit, "expr": expr,
                   "params": params, "sel": sel, "stmts": stmts, "rets": rets or SCALAR_RETS})

    for op in BINOPS:
        for ta in NUM + ["bool"]:
            for tb in NUM + ["bool"]:
                if (ta == "bool") != (tb == "bool"):
                    continue
                add(op, ta, tb, f"a {op} b", [("a", ta), ("b", tb)], "bin")
        for ta in NUM:
            for tb in NUM:
                if op not in nv.CMPS:
                    add(op, ta, tb, "a", [("a", ta), ("b", tb)], "aug", stmts=[f"a {op}= b"])
        for ty in NUM:
            for lit in int_lits + float_lits:
                lt = "float" if isinstance(lit, float) else "int"
                # (_synthesize_binary synthesizes both operands first, so an int literal is int
                #  even next to a nat; only call arguments are CHECKED against the parameter type)
                add(op, ty, lt, f"a {op} {lit_src(lit)}", [("a", ty)], "lit_r", lit=lit)
                add(op, lt, ty, f"{lit_src(lit)} {op} b", [("b", ty)], "lit_l", lit=lit)
    for name, expr in UNARY:
        for ty in NUM + ["bool"]:
            if (name, ty) == ("trunc", "float"):
                continue  # declared with unsupported_op() in std/num.py: not executable by design
            add(name, ty, "none", expr, [("a", ty)], "un")
    for ty in NUM + ["bool"]:
        add("bool", ty, "none", "False", [("a", ty)], "if", stmts=["if a:", "    return True"])
        add("not", ty, "none", "False", [("a", ty)], "ifnot", stmts=["if not a:", "    return True"])
    for ta in NUM:
        for tb in NUM:
            add("pow", ta, tb, "pow(a, b)", [("a", ta), ("b", tb)], "call")
            for k in (0, 1):
                add(f"divmod{k}", ta, tb, "divmod(a, b)", [("a", ta), ("b", tb)], "call", sel=k, rets=TUPLE_RETS)
        for lit in (3, -2, 2.5):
            lt = "float" if isinstance(lit, float) else "int"
            add("pow", ta, lt, f"pow(a, {lit_src(lit)})", [("a", ta)], "call_lit", blit=1 if lt == "int" else 0, lit=lit)
            for k in (0, 1):
                add(f"divmod{k}", ta, lt, f"divmod(a, {lit_src(lit)})", [("a", ta)], "call_lit",
                    blit=1 if lt == "int" else 0, lit=lit, sel=k, rets=TUPLE_RETS)
    for i, f in enumerate(fs):
        f["idx"] = i
        f["key"] = f"{f['style']}:{f['expr']}:{','.join(t for _, t in f['params'])}" + (f"[{f['sel']}]" if f["sel"] is not None else "") \
            + (":" + ";".join(f["stmts"]) if f["stmts"] else "")
    return fs


def form_source(f: dict, ret: str, name: str = "f") -> str:
    ps = ", ".join(f"{n}: {t}" for n, t in f["params"])
    body = "".join(f"    {s}\n" for s in (f["stmts"] or []))
    return f"{f.get('pre') or ''}@guppy\ndef {name}({ps}) -> {ret}:\n{body}    return {f['expr']}\n"


# ---------------------------------------------------------------------------------------
# operands
# ---------------------------------------------------------------------------------------
QUICK_SHIFTS = [0, 1, 2, 7, 15, 16, 17, 31, 32, 33, 47, 48, 62, 63]


def operand_values(ty: str, role: str, op: str, tier: str, rng: random.Random, other: str | None = None) -> list:
    """operand values of type ty; role 'a' (left / only) or 'b' (right)"""
    quick = tier == "quick"
    if ty == "bool":
        return [False, True]
    if role == "b" and op in ("<<", ">>") and ty in ("nat", "int"):
        vs = list(QUICK_SHIFTS if quick else nv.SHIFT_COUNTS) + [64, 65, 1 << 40]
        if ty == "int":
            vs += [-1, nv.MINI]
        return vs
    if role == "b" and op in ("**", "pow"):
        if ty == "float":
            return [0.0, 1.0, 2.0, 3.0, 5.0, 0.5, -1.0, 10.0]
        vs = [0, 1, 2, 3, 5, 8, 31, 63, 64, 65] + ([] if quick else [4, 7, 16, 32, 1000003, nv.MAXI])
        if ty == "int":
            vs += [-1, nv.MINI]
        else:
            vs += [nv.MAXU, 1 << 63]
        return vs
    vs = list(nv.anchors(ty, core=quick))
    if role == "a" and op in ("int", "nat", "floor", "ceil", "float", "co_float") and ty == "float":
        vs += nv.FLOAT_BIG
    if role == "a" and op in ("**", "pow") and ty == "float":
        vs = [v for v in vs if abs(v) < 64]
    return vs


def operands(f: dict, tier: str, seed: int) -> list[tuple]:
    """operand tuples (a, b); literal operands are filled in; unary forms have b = None"""
    rng = random.Random(f"{seed}:{f['key']}")
    quick = tier == "quick"
    nrand = {"bin": (8, 120), "aug": (6, 60), "lit_r": (4, 30), "lit_l": (4, 30), "un": (8, 100), "if": (2, 20),
             "ifnot": (2, 20), "call": (12, 120), "call_lit": (4, 30)}[f["style"]][0 if quick else 1]
    ta, tb, op = f["ta"], f["tb"], f["op"]
    if tb == "none":
        A = operand_values(ta, "a", op, tier, rng)
        if f["style"] in ("if", "ifnot") and quick:
            A = A[:6]
        return [(a, None) for a in A] + [(nv.rand_value(ta, rng), None) for _ in range(nrand if ta != "bool" else 0)]
    if f["style"] in ("lit_r", "call_lit"):
        A = operand_values(ta, "a", op, tier, rng)
        if quick and f["style"] == "lit_r":
            A = A[:8]
        return [(a, f["lit"]) for a in A] + [(nv.rand_value(ta, rng), f["lit"]) for _ in range(nrand)]
    if f["style"] == "lit_l":
        Bv = operand_values(tb, "b", op, tier, rng)
        if quick:
            Bv = Bv[:8] if op not in ("<<", ">>", "**") else Bv[:12]
        return [(f["lit"], b) for b in Bv] + [(f["lit"], nv.rand_value(tb, rng)) for _ in range(nrand)]
    A = operand_values(ta, "a", op, tier, rng)
    Bv = operand_values(tb, "b", op, tier, rng)
    if f["style"] == "aug":
        A, Bv = (A[:5], Bv[:5]) if quick else (A[:12], Bv[:10])
    elif not quick and op not in ("<<", ">>", "**", "pow"):
        Bv = Bv[:16]          # all anchors on the left x (core + 8 more) on the right
    pairs = [(a, b) for a in A for b in Bv]
    if ta != "bool":
        for _ in range(nrand):
            b = nv.rand_value(tb, rng)
            if op in ("<<", ">>") and tb != "float":
                b = rng.randrange(64)
            elif op in ("**", "pow"):
                b = float(rng.randrange(8)) if tb == "float" else rng.randrange(70)
            pairs.append((nv.rand_value(ta, rng), b))
    return pairs


# ---------------------------------------------------------------------------------------
# pool job: probe result type, compile, run
# ---------------------------------------------------------------------------------------
def _to_arg(ty: str, v):
    if ty == "float":
        return float(v)
    if ty == "bool":
        return bool(v)
    return int(v) & nv.MAXU


def probe_and_compile(f: dict):
    """-> (ret annotation | None, package | None, rejection info)"""
    import gp
    from guppylang_internals.error import GuppyError

    last = None
    for ret in f["rets"]:
        mod = gp.load(form_source(f, ret))
        try:
            try:
                mod.f.check()
            except GuppyError as e:
                last = type(e.error).__name__
                continue
            pkg = mod.f.compile_function()
            return ret, pkg, None
        finally:
            gp.unload(mod)
    return None, None, last


def run_forms_job(job: dict) -> list[dict]:
    """job = {"forms": [form...], "tier", "seed", "validate"} -> one result per form:
    {"idx", "status": "ok"|"rejected"|"crash", "ret", "events": [...], "valid": bool|str}"""
    import gp
    from hugr_interp import Budget, Exit, Interp, InterpError, Panic, Unsupported

    out = []
    for f in job["forms"]:
        res = {"idx": f["idx"], "events": []}
        try:
            ret, pkg, why = probe_and_compile(f)
        except Exception as e:  # compiler crash: reported, not swallowed
            res.update(status="crash", error=f"{type(e).__name__}: {e}"[:400])
            out.append(res)
            continue
        if ret is None:
            res.update(status="rejected", error=why)
            out.append(res)
            continue
        res.update(status="ok", ret=ret)
        if job.get("validate", True):
            try:
                gp.validate(pkg)
                res["valid"] = True
            except Exception as e:
                s = str(e)
                i = s.find("Caused by")
                res["valid"] = s[i:i + 400] if i >= 0 else s[:400]
        rty = ret if not ret.startswith("tuple") else ret[6:ret.index(",")]
        res["rty"] = rty
        it = Interp(pkg.modules[0])
        fn = it.find_func("f")
        ptypes = [t for _, t in f["params"]]
        for a, b in job["operands"][str(f["idx"])]:
            # which of (a, b) are parameters
            if not ptypes:
                args = []
            elif f["style"] in ("lit_r", "call_lit"):
                args = [_to_arg(ptypes[0], a)]
            elif f["style"] == "lit_l":
                args = [_to_arg(ptypes[0], b)]
            elif b is None:
                args = [_to_arg(ptypes[0], a)]
            else:
                args = [_to_arg(ptypes[0], a), _to_arg(ptypes[1], b)]
            it.steps = 0
            it.events = []
            ev = {"a": a, "b": b}
            try:
                outs = it.call(fn, list(args), ())
                v = outs[f["sel"] or 0]
                if hasattr(v, "vals") and not isinstance(v, bool):  # tuple returned as one value
                    v = v.vals[f["sel"] or 0]
                ok = (isinstance(v, bool) if rty == "bool" else isinstance(v, float) if rty == "float"
                      else (isinstance(v, int) and not isinstance(v, bool)))
                if not ok:
                    ev.update(end="machinery", msg=f"output {v!r} is not a {rty}")
                else:
                    ev.update(end="ret", r=v)
            except Panic as e:
                ev.update(end="panic", msg=str(e.msg)[:100])
            except Exit as e:
                ev.update(end="panic", msg="exit " + str(e.msg)[:100])
            except (Budget, Unsupported, InterpError) as e:
                ev.update(end="machinery", msg=f"{type(e).__name__}: {e}"[:300])
            res["events"].append(ev)
        out.append(res)
    return out
