"""C25 helper: project the HUGR of a compiled function with `with` modifier blocks onto the
observables of spec/Modifiers.tla (trusted projection; no expectation is computed here).

For every function reachable from the entry through modifier call sites:
  * ops        quantum ops / direct calls it contains (names, sorted), number of CallIndirects
  * sites      one record per CallIndirect:
      chain    modifier ops between the CallIndirect's function input and the LoadFunc,
               OUTERMOST FIRST (= walking back from the CallIndirect): Dagger / Power(operand
               origin) / Control(arity type argument, origin of the qubits wired to its slot)
      target   name of the FuncDefn loaded by the LoadFunc
      lin/cls  origins of the remaining (captured) inputs
  * paths      for every linear parameter of the entry: the route of its wire from the
               function Input to the function Output (call slots entered/left, gates met,
               recursively inside wrapped functions)
Origins are entry parameter names (resolved through enclosing call sites) or ["const", v].
"""
from __future__ import annotations

import hugr.ops as ops

MOD = "tket.modifier."
ARR = "collections.borrow_arr."


class Shape(Exception):
    """The HUGR does not have the shape this projection understands."""


def _ext_name(op) -> str | None:
    if isinstance(op, ops.ExtOp):
        return op.op_def().qualified_name()
    if isinstance(op, ops.Custom):
        return f"{op.extension}.{op.op_name}"
    return None


class View:
    def __init__(self, h, entry: str, params: list[str]):
        self.h = h
        self.params = params
        self.funcs = {}
        for n in h.children(h.module_root):
            op = h[n].op
            if isinstance(op, ops.FuncDefn):
                self.funcs[op.f_name] = n
        if entry not in self.funcs:
            raise Shape(f"no FuncDefn {entry}")
        self.entry = self.funcs[entry]
        self.callsite = {}  # wrapped FuncDefn node -> (caller FuncDefn node, CallIndirect node, nctrl)

    # -- generic helpers ---------------------------------------------------------------
    def op(self, n):
        return self.h[n].op

    def src(self, n, i):
        """(node, out offset) feeding in-port i of n."""
        ls = list(self.h.linked_ports(n.inp(i)))
        if len(ls) != 1:
            raise Shape(f"in-port {i} of {n} ({self.op(n)}) has {len(ls)} sources")
        return ls[0].node, ls[0].offset

    def dst(self, n, i):
        ls = list(self.h.linked_ports(n.out(i)))
        return [(p.node, p.offset) for p in ls]

    def func_of(self, n):
        while not isinstance(self.op(n), ops.FuncDefn):
            n = self.h[n].parent
        return n

    def fname(self, f):
        return self.op(f).f_name

    def io(self, f):
        ch = list(self.h.children(f))
        inp = next(c for c in ch if isinstance(self.op(c), ops.Input))
        out = next(c for c in ch if isinstance(self.op(c), ops.Output))
        return inp, out

    def single_block(self, f):
        """(cfg, block, block Input, block Output) of a function whose body is one basic block."""
        cfgs = [c for c in self.h.children(f) if isinstance(self.op(c), ops.CFG)]
        if len(cfgs) != 1:
            raise Shape(f"{self.fname(f)}: {len(cfgs)} CFG nodes")
        blocks = [c for c in self.h.children(cfgs[0]) if isinstance(self.op(c), ops.DataflowBlock)]
        if len(blocks) != 1:
            raise Shape(f"{self.fname(f)}: {len(blocks)} basic blocks (projection handles straight-line bodies)")
        ch = list(self.h.children(blocks[0]))
        bi = next(c for c in ch if isinstance(self.op(c), ops.Input))
        bo = next(c for c in ch if isinstance(self.op(c), ops.Output))
        return cfgs[0], blocks[0], bi, bo

    # -- backward: where does a value come from -------------------------------------------
    def origin(self, n, i):
        """Origin of the value on out-port i of node n."""
        op = self.op(n)
        if isinstance(op, ops.Input):
            parent = self.h[n].parent
            if isinstance(self.op(parent), ops.DataflowBlock):
                cfg = self.h[parent].parent
                if list(self.h.children(cfg))[0] != parent:
                    raise Shape("value enters through a non-entry block")
                return self.origin(*self.src(cfg, i))
            if isinstance(self.op(parent), ops.FuncDefn):
                if parent == self.entry:
                    return self.params[i]
                if parent not in self.callsite:
                    raise Shape(f"input of {self.fname(parent)} which has no known call site")
                _, ci, nctrl = self.callsite[parent]
                return self.origin(*self.src(ci, 1 + nctrl + i))
            raise Shape(f"Input of {self.op(parent)}")
        if isinstance(op, ops.LoadConst):
            c, _ = self.src(n, 0)
            v = self.op(c).val
            return ["const", getattr(v, "v", repr(v))]
        name = _ext_name(op)
        if name == ARR + "new_array":
            return [self.origin(*self.src(n, k)) for k in range(self.h.num_in_ports(n))]
        if name == ARR + "to_array":
            return self.origin(*self.src(n, 0))
        if name == ARR + "borrow" and i == 1:      # element borrowed out of an array: "arr[idx]"
            a, k = self.origin(*self.src(n, 0)), self.origin(*self.src(n, 1))
            if isinstance(a, str) and isinstance(k, list) and k[0] == "const":
                return f"{a}[{k[1]}]"
            return ["node", name]
        if name == "arithmetic.conversions.itousize":
            return self.origin(*self.src(n, 0))
        if isinstance(op, ops.Call):               # value computed by a direct call: "f(args)"
            nin = self.h.num_in_ports(n) - 1
            lin = [k for k in range(nin) if "qubit" in str(self.h.port_type(n.inp(k))).lower()]
            nret = self.h.num_out_ports(n) - len(lin)
            if i >= nret:                          # a borrowed argument handed back: same value
                return self.origin(*self.src(n, lin[i - nret]))
            callee, _ = self.src(n, self.h.num_in_ports(n) - 1)
            a = [self.origin(*self.src(n, k)) for k in range(self.h.num_in_ports(n) - 1)]
            if all(isinstance(x, str) for x in a):
                return f"{getattr(self.op(callee), 'f_name', '?')}({', '.join(a)})"
            return ["node", "Call"]
        if isinstance(op, ops.MakeTuple | ops.UnpackTuple) and self.h.num_in_ports(n) == 1:
            return self.origin(*self.src(n, 0))
        return ["node", name or type(op).__name__]

    # -- call sites ---------------------------------------------------------------------------
    def site(self, ci):
        """Project one CallIndirect."""
        chain = []
        n, _ = self.src(ci, 0)
        while True:
            name = _ext_name(self.op(n))
            if name and name.startswith(MOD):
                kind = name[len(MOD):]
                rec = {"op": kind.replace("Modifier", "")}
                if kind == "ControlModifier":
                    a = self.op(n).args[0]
                    rec["arity"] = getattr(a, "n", str(a))
                elif kind == "PowerModifier":
                    rec["opnd"] = self.origin(*self.src(n, 1))
                chain.append((rec, n))
                n, _ = self.src(n, 0)
            elif isinstance(self.op(n), ops.LoadFunc):
                break
            else:
                raise Shape(f"unexpected node {self.op(n)} between CallIndirect and LoadFunc")
        target, _ = self.src(n, 0)
        if not isinstance(self.op(target), ops.FuncDefn):
            raise Shape("LoadFunc does not load a FuncDefn")
        nctrl = sum(1 for r, _ in chain if r["op"] == "Control")
        slot = 0
        for r, _ in chain:
            if r["op"] == "Control":
                o = self.origin(*self.src(ci, 1 + slot))
                r["src"] = o if isinstance(o, list) else [o]
                r["isarr"] = not isinstance(o, list)
                slot += 1
        self.callsite[target] = (self.func_of(ci), ci, nctrl)
        rest = [self.origin(*self.src(ci, k)) for k in range(1 + nctrl, self.h.num_in_ports(ci))]
        nout = self.h.num_out_ports(ci)
        return {"chain": [r for r, _ in chain], "target": self.fname(target), "target_node": target,
                "nctrl": nctrl, "captured": rest, "n_linear_out": nout - nctrl}

    def function(self, f, seen=None):
        """Project function f and, recursively, the functions wrapped by its modifier call sites."""
        out = {"name": self.fname(f), "unitary": self.h[f].metadata.get("unitary"), "ops": [], "sites": []}
        for n in self.h.descendants(f):
            if n == f:
                continue
            op = self.op(n)
            name = _ext_name(op)
            if name and name.startswith("tket.quantum."):
                out["ops"].append(name[len("tket.quantum."):])
            elif isinstance(op, ops.Call):
                callee, _ = self.src(n, self.h.num_in_ports(n) - 1)
                out["ops"].append("call:" + getattr(self.op(callee), "f_name", "?"))
            elif isinstance(op, ops.CallIndirect):
                out["sites"].append(self.site(n))
            elif name and name.startswith(MOD) and self.func_of(n) != f:
                raise Shape("modifier op outside its function")
        out["ops"].sort()
        out["wrapped"] = [self.function(s["target_node"]) for s in out["sites"]]
        for s in out["sites"]:
            del s["target_node"]
        return out

    # -- forward: route of a linear value ----------------------------------------------------------
    def _linear_out(self, call, j):
        """Out-port on which a direct call hands back its borrowed in-port j: results come first."""
        nin = self.h.num_in_ports(call) - 1
        lin = [k for k in range(nin) if "qubit" in str(self.h.port_type(call.inp(k))).lower()]
        nret = self.h.num_out_ports(call) - len(lin)
        return nret + lin.index(j)

    def route(self, f, port, depth=0):
        """Events met by the linear value entering function f at input `port`, up to f's Output.
        Returns (events, output index)."""
        inp, _ = self.io(f)
        ev, end = self._walk(f, inp, port, depth)
        if end[0] != "out":
            raise Shape("value ends in an array write-back without having been borrowed here")
        return ev, end[1]

    def _walk(self, f, n, i, depth):
        """Follows a linear value from out-port i of n inside function f.  Ends at f's Output
        (-> ("out", index)) or as the element written back by a borrow_arr.return (-> ("ret", node))."""
        _, fout = self.io(f)
        ev = []
        stack = []  # element indices of enclosing new_array packings
        for _ in range(200):
            ds = self.dst(n, i)
            if len(ds) != 1:
                raise Shape(f"linear value on {n}:{i} ({self.op(n)}) has {len(ds)} consumers")
            m, j = ds[0]
            op = self.op(m)
            name = _ext_name(op)
            if m == fout:
                if stack:
                    raise Shape("array still packed at function output")
                return ev, ("out", j)
            if isinstance(op, ops.CFG):
                _, _, bi, _ = self.single_block(f)
                n, i = bi, j
            elif isinstance(op, ops.Output):  # block output: port 0 is the branch tag
                cfg, blk, _, _ = self.single_block(f)
                if m not in list(self.h.children(blk)) or j == 0:
                    raise Shape("unexpected Output node")
                n, i = cfg, j - 1
            elif isinstance(op, ops.CallIndirect):
                s = next((c for c in self.callsite.values() if c[1] == m), None)
                if s is None:
                    raise Shape("CallIndirect not projected")
                nctrl = s[2]
                target = next(t for t, c in self.callsite.items() if c[1] == m)
                k = j - 1
                if k < nctrl:
                    ev.append(["ctrl", depth, k, stack[-1] if stack else None])
                else:
                    sub, oidx = self.route(target, k - nctrl, depth + 1)
                    if oidx != k - nctrl:
                        raise Shape(f"wrapped function returns input {k - nctrl} at output {oidx}")
                    ev.append(["cap", depth])
                    ev += sub
                n, i = m, k
            elif name == ARR + "new_array":
                stack.append(j)
                n, i = m, 0
            elif name in (ARR + "to_array", ARR + "from_array"):
                n, i = m, 0
            elif name == ARR + "unpack":
                if not stack:
                    raise Shape("unpack of an array that was not packed here")
                n, i = m, stack.pop()
            elif name == ARR + "borrow" and j == 0:
                # an element is borrowed out of this array: follow the element until it is written
                # back; the array itself must flow straight into that write-back
                sub, end = self._walk(f, m, 1, depth)
                if end[0] != "ret":
                    raise Shape("borrowed array element is not written back")
                back = self.dst(m, 0)
                if len(back) != 1 or back[0] != (end[1], 0):
                    raise Shape("array and its borrowed element are not rejoined by the same write-back")
                ev += sub
                n, i = end[1], 0
            elif name == ARR + "return" and j == 2:
                if stack:
                    raise Shape("element written back while still packed")
                return ev, ("ret", m)
            elif name and name.startswith("tket.quantum."):
                ev.append(["gate", name[len("tket.quantum."):], j])
                n, i = m, j
            elif isinstance(op, ops.Call):
                callee, _ = self.src(m, self.h.num_in_ports(m) - 1)
                ev.append(["gate", "call:" + getattr(self.op(callee), "f_name", "?"), j])
                n, i = m, self._linear_out(m, j)
            else:
                raise Shape(f"linear value flows into {name or type(op).__name__}")
        raise Shape("route too long")


def project(pkg_or_hugr, entry: str, params: list[str], linear: list[str]) -> dict:
    h = pkg_or_hugr.modules[0] if hasattr(pkg_or_hugr, "modules") else pkg_or_hugr
    v = View(h, entry, params)
    tree = v.function(v.entry)
    paths = {}
    lin_idx = [params.index(x) for x in linear]
    for name, pi in zip(linear, lin_idx):
        ev, oidx = v.route(v.entry, pi)
        paths[name] = {"events": ev, "out": oidx, "want_out": lin_idx.index(pi)}
    # usage of classical captured values is visible through `captured` origins of every site
    return {"tree": tree, "paths": paths}
