"""Identity of the tree under test, to detect that /repo changed while a check was running
(references/expectations and replays would then come from different sources)."""
from __future__ import annotations

import subprocess

import lib


def tree_state() -> str:
    def git(*a):
        return subprocess.run(["git", "-C", lib.REPO, *a], capture_output=True, text=True).stdout

    return lib.sha([git("rev-parse", "HEAD"), git("status", "--porcelain"), git("diff")])


def require_unchanged(before: str) -> None:
    if tree_state() != before:
        raise lib.Machinery("the tree under test changed while the check was running; re-run on a stable tree")


def count_sim_states(ctx, r) -> int:
    """TLC's simulation mode reports its state count in a different line than lib.tlc parses;
    add it to the run's totals (states generated = transitions taken in the random traces)."""
    import re

    m = re.search(r"The number of states generated: (\d+)", r.out)
    n = int(m.group(1)) if m else 0
    ctx.transitions += n
    ctx.states += n
    runs = ctx.coverage.get("tlc_runs") or []
    if runs:
        runs[-1]["generated"] = n
        runs[-1]["mode"] = "simulation"
    return n
