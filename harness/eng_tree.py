"""Identity of the tree under test, to detect that /repo changed while a check was running
(references/expectations and replays would then come from different sources)."""
from __future__ import annotations

import subprocess

import lib


def tree_state() -> str:
    def git(*a):
        return subprocess.run(["git", "-C", lib.REPO, *a], capture_output=True, text=True).stdout

    return lib.sha([git("rev-parse", "HEAD"), git("status", "--porcelain"), git("diff")])


def require_unchanged(before: str) -> None:
    if tree_state() != before:
        raise lib.Machinery("the tree under test changed while the check was running; re-run on a stable tree")


def count_sim_states(ctx, r) -> int:
    """TLC's simulation mode reports its state count in a different line than lib.tlc parses;
    add it to the run's totals (states generated = transitions taken in the random traces)."""
    import re

    m = re.search(r"The number of states generated: (\d+)", r.out)
    n = int(m.group(1)) if m else 0
    ctx.transitions += n
    ctx.states += n
    runs = ctx.coverage.get("tlc_runs") or []
    if runs:
        runs[-1]["generated"] = n
        runs[-1]["mode"] = "simulation"
    return n


def freeze_tree(ctx) -> str:
    """Copy the source trees of the tree under test into the run's scratch directory and make this
    process and everything it starts import guppylang from that copy (env VERIF_REPO, read by the
    compat shim).  The check then tests the tree exactly as it was when the run started, even if
    /repo is committed to or edited while the run is in progress (sources are re-read from disk
    lazily by inspect/linecache, and fresh reference processes import them anew).
    Must be called before anything imports gp/guppylang."""
    import os
    import shutil
    import sys

    if "gp" in sys.modules or "guppylang" in sys.modules:
        raise lib.Machinery("freeze_tree called after guppylang was imported")
    dst = os.path.join(ctx.workdir, "tree")
    for sub in ("guppylang/src", "guppylang-internals/src"):
        shutil.copytree(os.path.join(lib.REPO, sub), os.path.join(dst, sub),
                        ignore=shutil.ignore_patterns("__pycache__", "*.pyc"))
    os.environ["VERIF_REPO"] = dst
    ctx.coverage["tree_under_test"] = {"source": lib.REPO, "frozen_copy": True, "state_at_start": tree_state()}
    return dst
