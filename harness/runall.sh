#!/bin/sh
# usage: runall.sh <tier> ID...   ; runs checks sequentially, logs to work/runall/<ID>.{out,err}, prints a summary line each
cd "$(dirname "$0")/.."
T=$1; shift
mkdir -p work/runall
for c in "$@"; do
  s=$(date +%s)
  ./check $c --tier $T > work/runall/$c.out 2> work/runall/$c.err; rc=$?
  e=$(date +%s)
  echo "$c rc=$rc wall=$((e-s))s viol=$(grep -c '^VIOLATION' work/runall/$c.out) known=$(grep -c '^KNOWN-FINDING' work/runall/$c.out)" | tee -a work/runall/summary.txt
done
