"""C14: build the types TLC enumerated (spec/TypeAlg_Class.tla) from /repo through the real
type parser / struct definitions, observe their classification, and compile functions that
leave an affine value unused to observe the inserted tket.guppy.drop operations."""
from __future__ import annotations

import json

import gp
import talg_terms as tt

VARS_SRC = '''
TL = guppy.type_var("TL", copyable=False, droppable=False)
TC = guppy.type_var("TC", copyable=True, droppable=False)
TD = guppy.type_var("TD", copyable=False, droppable=True)
TCD = guppy.type_var("TCD", copyable=True, droppable=True)
'''


def _norm_spec(t, names: tt.Names):
    """spec term -> comparable form: variable indices dropped, rec shapes by class name."""
    if isinstance(t, list):
        if t and t[0] == "bv":
            return ["bv", 0, t[2], t[3], t[4]]
        if t and t[0] == "rec":
            return ["st", names.recs[json.dumps(t)], []]
        return [_norm_spec(x, names) for x in t]
    return t


def _norm_real(t):
    if isinstance(t, list):
        if t and t[0] == "bv":
            return ["bv", 0, t[2], t[3], t[4]]
        return [_norm_real(x) for x in t]
    return t


def module_for(terms: list, mk_fn) -> tuple[str, tt.Names, list[str]]:
    names = tt.Names()
    texts = [tt.type_text(t, names) for t in terms]
    src = tt.GSTRUCT_SRC + VARS_SRC + "\n".join(names.decls) + "\n"
    for i, tx in enumerate(texts):
        src += mk_fn(i, tx)
    return src, names, texts


def probe_chunk(job: dict) -> list[dict]:
    """job = {"terms": [term..]} -> one observation per term:
    {"accepted": bool, "error"?, "same"?, "copyable", "droppable", "hugr_bound", "type_bound"}"""
    import hugr.tys as ht
    from guppylang_internals.engine import ENGINE
    from guppylang_internals.error import GuppyError
    from guppylang_internals.tys.common import QuantifiedToHugrContext

    terms = job["terms"]
    src, names, texts = module_for(terms, lambda i, tx: f"@guppy.declare\ndef p{i}(x: {tx}) -> None: ...\n")
    mod = gp.load(src)
    out = []
    try:
        for i, t in enumerate(terms):
            o: dict = {"text": texts[i]}
            try:
                f = ENGINE.get_parsed(getattr(mod, f"p{i}").id).ty
            except GuppyError as e:
                d = e.error
                o.update(accepted=False, error=type(d).__name__, title=str(getattr(d, "rendered_title", "") or ""))
                out.append(o)
                continue
            except Exception as e:  # a crash is an observation too
                o.update(accepted=False, error="CRASH:" + type(e).__name__, title=str(e)[:200])
                out.append(o)
                continue
            ty = f.inputs[0].ty
            ctx = QuantifiedToHugrContext(f.params)
            o["accepted"] = True
            try:
                o["same"] = _norm_real(tt.proj_type(ty)) == _norm_spec(t, names)
                if not o["same"]:
                    o["proj"] = tt.proj_type(ty)
                o["copyable"] = bool(ty.copyable)
                o["droppable"] = bool(ty.droppable)
                o["hugr_bound"] = ty.hugr_bound == ht.TypeBound.Copyable
                o["type_bound"] = ty.to_hugr(ctx).type_bound() == ht.TypeBound.Copyable
            except Exception as e:  # noqa: BLE001  (the code under test crashed: an observation)
                o["crash"] = f"{type(e).__name__}: {str(e)[:200]}"
            out.append(o)
    finally:
        gp.unload(mod)
    return out


def _walk(ty, path):
    from guppylang_internals.tys.ty import StructType, TupleType

    for i in path:
        if isinstance(ty, TupleType):
            ty = ty.element_types[i]
        elif isinstance(ty, StructType):
            ty = ty.fields[i].ty
        else:
            raise ValueError(f"path {path} leaves {ty}")
    return ty


def drop_job(job: dict) -> dict:
    """job = {"id", "term", "ctx": "arg"|"discard", "paths": [[int..]..]}.
    Compiles the program, validates, returns the dropped Hugr types and the Hugr types of
    the expected leaves (computed from the real Type along the spec's paths)."""
    import runner
    from guppylang_internals.engine import ENGINE
    from guppylang_internals.error import GuppyError
    from guppylang_internals.tys.common import QuantifiedToHugrContext
    from hugr import ops

    res: dict = {"id": job["id"]}
    mod = None
    try:
        if job["ctx"] == "arg":
            mk = lambda i, tx: f"@guppy\ndef main(x: {tx} @owned) -> None:\n    pass\n"
        else:
            mk = lambda i, tx: (f"@guppy.declare\ndef make() -> {tx}: ...\n"
                                "@guppy\ndef main() -> None:\n    make()\n")
        src, names, texts = module_for([job["term"]], mk)
        res["src"] = src[len(tt.GSTRUCT_SRC) + len(VARS_SRC):]
        try:
            mod, pkg = runner.compile_src(src, "main")
        except GuppyError as e:
            res.update(status="rejected", error=runner.classify_exception(e))
            return res
        except Exception as e:
            res.update(status="crash", error=runner.classify_exception(e))
            return res
        try:
            gp.validate(pkg)
            res["valid"] = True
        except Exception as e:
            res.update(valid=False, error={"msg": runner.validation_msg(e)})
        h = pkg.modules[0]
        drops = []
        for n in h.descendants(h.module_root):
            op = h[n].op
            if isinstance(op, ops.ExtOp) and op.op_def().qualified_name() == "tket.guppy.drop":
                drops.append(str(op.args[0]))
        res["drops"] = sorted(drops)
        if job["ctx"] == "arg":
            f = ENGINE.get_parsed(mod.main.id).ty
            whole = f.inputs[0].ty
        else:
            f = ENGINE.get_parsed(mod.make.id).ty
            whole = f.output
        ctx = QuantifiedToHugrContext(f.params)
        res["expected"] = sorted(str(_walk(whole, p).to_hugr(ctx).type_arg()) for p in job["paths"])
        res["status"] = "ok"
        return res
    except BaseException as e:  # noqa: BLE001
        import traceback

        res.update(status="machinery", error={"class": type(e).__name__, "msg": str(e)[:300],
                                             "tb": traceback.format_exc()[-1500:]})
        return res
    finally:
        if mod is not None:
            gp.unload(mod)
