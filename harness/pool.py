"""Fork-based worker pool: each worker has /repo's guppylang imported once.

The pool is created on first use and reused for the rest of the process (forking the loaded
interpreter costs ~0.5 s per worker in this sandbox)."""
from __future__ import annotations

import atexit
import multiprocessing as mp
import os

_POOL = None
_PROCS = 0


def _init():
    import gp  # noqa: F401
    import guppylang.std.builtins  # noqa: F401
    import guppylang.std.quantum  # noqa: F401


def _close():
    global _POOL
    if _POOL is not None:
        try:
            _POOL.terminate()
            _POOL.join()
        except Exception:  # noqa: BLE001
            pass
        _POOL = None


def map_jobs(fn, jobs, procs: int | None = None, chunksize: int = 4, maxtasks: int | None = None):
    """Ordered parallel map. `fn` must be a module-level function (defined before the first call)."""
    global _POOL, _PROCS
    procs = procs or min(os.cpu_count() or 4, 12)
    _init()  # parent too: children inherit the imports, and unpickled results resolve to /repo
    if len(jobs) <= 2 or procs == 1:
        return [fn(j) for j in jobs]
    if _POOL is None or _PROCS != procs:
        _close()
        _POOL = mp.get_context("fork").Pool(procs, initializer=_init)
        _PROCS = procs
        atexit.register(_close)
    # Pool.map never returns if a worker dies (killed, aborted inside a native library): its task is lost.
    # Poll instead, watch the workers, and redo the (pure) map on a fresh pool when one has died.
    for _attempt in range(3):
        if _POOL is None:
            _POOL = mp.get_context("fork").Pool(procs, initializer=_init)
            _PROCS = procs
        pids = sorted(p.pid for p in _POOL._pool)
        ar = _POOL.map_async(fn, jobs, chunksize=chunksize)
        while True:
            try:
                return ar.get(timeout=5)
            except mp.TimeoutError:
                workers = list(_POOL._pool)
                if sorted(p.pid for p in workers) != pids or any(p.exitcode is not None for p in workers):
                    break
        _close()
    raise RuntimeError("pool: worker processes died during three attempts of the same map")
