"""Fork-based worker pool: each worker has /repo's guppylang imported once."""
from __future__ import annotations

import multiprocessing as mp
import os


def _init():
    import gp  # noqa: F401
    import guppylang.std.builtins  # noqa: F401
    import guppylang.std.quantum  # noqa: F401


def map_jobs(fn, jobs, procs: int | None = None, chunksize: int = 4, maxtasks: int | None = 2000):
    """Ordered parallel map. `fn` must be a module-level function."""
    procs = procs or min(os.cpu_count() or 4, 16)
    _init()  # parent too: children inherit the imports, and unpickled results resolve to /repo
    if len(jobs) <= 2 or procs == 1:
        _init()
        return [fn(j) for j in jobs]
    ctx = mp.get_context("fork")
    with ctx.Pool(procs, initializer=_init, maxtasksperchild=maxtasks) as p:
        return p.map(fn, jobs, chunksize=chunksize)
