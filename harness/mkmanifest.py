#!/usr/bin/env python3
"""Assemble /verif/MANIFEST.json from checks/registry.json (claimed checks) and
checks/not_applicable.json (reasons for unclaimed properties)."""
import json, os
V = os.path.dirname(os.path.dirname(os.path.abspath(__file__)))
props = [json.loads(l)["id"] for l in open(os.path.join(V, "properties.jsonl"))]
reg = json.load(open(os.path.join(V, "checks/registry.json")))
import glob
for f in sorted(glob.glob(os.path.join(V, "checks/C*.registry.json"))):
    for k, v in json.load(open(f)).items():
        reg.setdefault(k, v)
enabled = set(open(os.path.join(V, "checks/enabled.txt")).read().split())
reg = {k: v for k, v in reg.items() if k in enabled}
na_path = os.path.join(V, "checks/not_applicable.json")
na = json.load(open(na_path)) if os.path.exists(na_path) else {}
hooks_path = os.path.join(V, "checks/hooks.json")
hooks = json.load(open(hooks_path)) if os.path.exists(hooks_path) else {"source_commits": []}
checks = []
for p in props:
    if p not in reg:
        continue
    r = reg[p]
    assert os.path.exists(os.path.join(V, "checks", p + ".py")), p
    c = {
        "property_id": p,
        "quick_cmd": f"./check {p} --tier quick",
        "thorough_cmd": f"./check {p} --tier thorough",
        "evidence_file": f"/verif/evidence/{p}.json",
        "replay_cmd_template": f"./check {p} --replay {{path}}",
        "engine": r.get("engine", ""),
        "level_claimed": {"category": r["category"], "text": r["text"], "design_ref": r.get("design_ref", "")},
        "level_note": r["note"],
        "technique": r["technique"],
    }
    checks.append(c)
engines = {}
for p, r in reg.items():
    for e in r.get("engine", "").split(","):
        e = e.strip()
        if e:
            engines.setdefault(e, []).append(p)
m = {
    "version": 1,
    "setup_cmd": "./setup.sh",
    "hooks": {
        "guard": "CQCL_GUPPYLANG_VERIF",
        "enable": "checks export CQCL_GUPPYLANG_VERIF=1 themselves (./check wrapper); hooks live in guppylang_internals/_verif.py and are inert otherwise",
        "baseline_off_cmd": "cd /repo && env -u CQCL_GUPPYLANG_VERIF /venv/bin/python -m pytest -ra -q -p no:cacheprovider --timeout=900 --continue-on-collection-errors",
        "source_commits": hooks.get("source_commits", []),
        "add_only": True,
    },
    "engines": [{"name": e, "path": f"/verif/spec/{e}.tla", "serves_properties": sorted(ps),
                 "kind_free_text": "TLA+ specification checked with TLC; bound to /repo by trace validation / replay"} for e, ps in sorted(engines.items())],
    "checks": checks,
    "notes": "All checks import guppylang from /repo's working tree through /verif/harness/compat (dependency shim); "
             "the pinned pytest baseline imports site-packages guppylang 1.0.4 and never executes /repo's sources. See DESIGN.md.",
    "not_applicable": [{"property_id": p, "reason": na.get(p, "check not built yet (work in progress)")} for p in props if p not in reg],
}
json.dump(m, open(os.path.join(V, "MANIFEST.json"), "w"), indent=1)
print(f"{len(checks)} checks, {len(m['not_applicable'])} not_applicable")
