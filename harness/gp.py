"""Load Guppy source text as a module (via linecache, no disk I/O) from /repo's tree."""
from __future__ import annotations

import itertools
import linecache
import os
import sys
import types

sys.path.insert(0, os.path.join(os.path.dirname(os.path.abspath(__file__)), "compat"))
import verif_compat  # noqa: E402,F401

verif_compat.assert_repo_import()

_ctr = itertools.count()

PRELUDE = """\
from guppylang import guppy, qubit, comptime
from guppylang.std.builtins import *
from guppylang.std.quantum import *
from guppylang.std import quantum
"""


def load(src: str, name: str | None = None, prelude: str = PRELUDE) -> types.ModuleType:
    """Exec `prelude + src` as a fresh module whose source inspect can find."""
    n = next(_ctr)
    name = name or f"_verif_prog_{n}"
    fname = f"<verif:{name}:{n}>"
    text = prelude + src
    lines = text.splitlines(keepends=True)
    linecache.cache[fname] = (len(text), None, lines, fname)
    mod = types.ModuleType(name)
    mod.__file__ = fname
    sys.modules[name] = mod
    try:
        exec(compile(text, fname, "exec"), mod.__dict__)
    except BaseException:
        sys.modules.pop(name, None)
        raise
    return mod


def unload(mod: types.ModuleType) -> None:
    sys.modules.pop(mod.__name__, None)
    linecache.cache.pop(getattr(mod, "__file__", ""), None)


def validate(pkg) -> None:
    """hugr-core validation of a compiled package (raises on invalid)."""
    import hugr.cli

    data = pkg if isinstance(pkg, bytes | bytearray) else pkg.to_bytes()
    # the Rust validator prints "HUGR valid!" on fd 2; silence it around the call
    sys.stderr.flush()
    saved = os.dup(2)
    devnull = os.open(os.devnull, os.O_WRONLY)
    try:
        os.dup2(devnull, 2)
        hugr.cli.validate(data)
    finally:
        os.dup2(saved, 2)
        os.close(saved)
        os.close(devnull)
