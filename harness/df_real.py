"""Drive /repo's real dataflow analyses (cfg/analysis.py) on abstract graphs under a chosen
worklist schedule, recording one trace record per iteration through the guarded hooks in
guppylang_internals/_verif.py.

graph (JSON, 1-based blocks/variables): see spec/Dataflow.tla header.
"""
from __future__ import annotations

import random

import gp  # noqa: F401

from guppylang_internals import _verif
from guppylang_internals.cfg.analysis import AssignmentAnalysis, LivenessAnalysis
from guppylang_internals.cfg.bb import BB, VariableStats
from guppylang_internals.cfg.cfg import CFG

if not _verif.ON:
    raise SystemExit("MACHINERY: CQCL_GUPPYLANG_VERIF=1 must be set before importing guppylang")


def build(graph):
    """Real CFG/BB objects + VariableStats for an abstract graph."""
    cfg = CFG.__new__(CFG)
    cfg.bbs = []
    n = graph["n"]
    bbs = [BB(i, cfg) for i in range(n)]
    cfg.bbs = list(bbs)
    cfg.entry_bb = bbs[0]
    cfg.exit_bb = bbs[-1]
    for b in range(n):
        for s in graph["succ"][b]:
            cfg.link(bbs[b], bbs[s - 1])
        for s in graph["dsucc"][b]:
            cfg.dummy_link(bbs[b], bbs[s - 1])
    stats = {}
    for b in range(n):
        st = VariableStats()
        for x in graph["assigned"][b]:
            st.assigned[x] = None
        for x in graph["used"][b]:
            st.used[x] = None
        stats[bbs[b]] = st
    return cfg, bbs, stats


class Sched:
    """Scheduler for the hook: policy in {"native","min","max","fifo","lifo","rand"} or an
    explicit list of block numbers (1-based) to follow as far as it goes."""

    def __init__(self, policy="rand", seed=0, script=None):
        self.policy, self.rng, self.script = policy, random.Random(seed), list(script or [])
        self.age = {}
        self.clock = 0
        self.choices = []  # (site, sorted candidate idxs, chosen idx)

    def __call__(self, site, cands):
        key = lambda b: b.idx if hasattr(b, "idx") else str(getattr(b, "name", b))
        cs = sorted(cands, key=key)
        for c in cs:
            if id(c) not in self.age:
                self.clock += 1
                self.age[id(c)] = self.clock
        if self.script:
            want = self.script.pop(0)
            pick = next((c for c in cs if key(c) == want - 1), None)
            if pick is None:
                raise RuntimeError(f"scripted block {want} not in queue {[key(c) + 1 for c in cs]}")
        elif self.policy == "min":
            pick = cs[0]
        elif self.policy == "max":
            pick = cs[-1]
        elif self.policy == "fifo":
            pick = min(cs, key=lambda c: self.age[id(c)])
        elif self.policy == "lifo":
            pick = max(cs, key=lambda c: self.age[id(c)])
        elif self.policy == "native":
            pick = cands[0]
        else:
            pick = self.rng.choice(cs)
        self.age.pop(id(pick), None)
        self.choices.append((site, [key(c) for c in cs], key(pick)))
        return pick


def run(graph, mode, sched):
    """Returns {"mode", "steps": [{b, before, queue}], "final": [...]}; blocks/evidence 1-based."""
    cfg, bbs, stats = build(graph)
    steps = []

    def live_val(d):
        # dict var -> evidence BB ; evidence from the initial value is the exit block -> 0
        return sorted([x, (bb.idx + 1 if bb is not INIT_EV else 0)] for x, bb in d.items())

    def tracer(site, **f):
        if mode == "live" and site == "BackwardAnalysis.run":
            steps.append({"b": f["bb"].idx + 1, "before": live_val(f["vals_before"][f["bb"]]),
                          "queue": sorted(b.idx + 1 for b in f["queue"])})
        elif mode == "assign" and site == "ForwardAnalysis.run":
            d, m = f["vals_before"][f["bb"]]
            da, ma = f["vals_after"][f["bb"]]
            steps.append({"b": f["bb"].idx + 1, "before": [sorted(d), sorted(m)], "after": [sorted(da), sorted(ma)],
                          "queue": sorted(b.idx + 1 for b in f["queue"])})

    INIT_EV = object.__new__(BB)
    INIT_EV.idx = -1
    old = _verif.scheduler, _verif.tracer
    _verif.scheduler, _verif.tracer = sched, tracer
    try:
        if mode == "live":
            init = {x: INIT_EV for x in graph["inout"]}
            res = LivenessAnalysis(stats, initial=init, include_unreachable=True).run(bbs)
            final = [live_val(res[b]) for b in bbs]
        else:
            res = AssignmentAnalysis(stats, set(graph["predef"]), set(graph["premaybe"]),
                                     include_unreachable=True).run(bbs)
            final = [[sorted(res[b][0]), sorted(res[b][1])] for b in bbs]
    finally:
        _verif.scheduler, _verif.tracer = old
    return {"mode": mode, "steps": steps, "final": final}
