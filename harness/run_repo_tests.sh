#!/bin/sh
# Runs /repo's own tests against /repo's SOURCES (through the dependency shim).
# Used as the regression guard for fix: commits (the pinned baseline imports site-packages).
# usage: run_repo_tests.sh <junit-out.xml> [pytest args]
HERE=$(cd "$(dirname "$0")" && pwd)
OUT=${1:-/dev/null}; shift
# selene and pytest scratch goes to a directory that is removed afterwards
SCRATCH=$(mktemp -d "$HERE/../work/repotests_XXXXXX" 2>/dev/null || mktemp -d)
trap 'rm -rf "$SCRATCH"' EXIT
export TMPDIR="$SCRATCH"
cd "${VERIF_REPO:-/repo}" && PYTHONDONTWRITEBYTECODE=1 PYTHONPATH="$HERE/pytest_shim:$HERE/compat" \
  /venv/bin/python -m pytest -q -p no:cacheprovider -x --co -q >/dev/null 2>&1
cd "${VERIF_REPO:-/repo}" && PYTHONDONTWRITEBYTECODE=1 PYTHONPATH="$HERE/pytest_shim:$HERE/compat" \
  /venv/bin/python -m pytest -q -p no:cacheprovider --timeout=900 -n 12 --continue-on-collection-errors --junitxml="$OUT" "$@"
