"""Runtime helper imported by the modules generated for C23 (see eng_ct.py).

Holds the running session: the generated modules, the function objects, the user's
original bindings and the log written by rec() from inside traced bodies.
"""
from __future__ import annotations

NAMES = ("int", "float", "len")
MISSING = object()

SESSION: dict = {"mods": {}, "fns": {}, "user": {}, "log": []}


def classify(modname: str, name: str) -> str:
    from guppylang_internals.tracing import builtins_mock as bm

    v = SESSION["mods"][modname].__dict__.get(name, MISSING)
    if v is MISSING:
        return "absent"
    if v is getattr(bm, name):
        return "mock"
    if (modname, name) in SESSION["user"]:
        kind, obj = SESSION["user"][modname, name]
        if v is obj:
            return kind
    return f"other:{type(v).__name__}"


def view() -> dict:
    return {m: {n: classify(m, n) for n in NAMES} for m in sorted(SESSION["mods"])}


def rec(f: int, k: int) -> None:
    SESSION["log"].append({"tag": [f, k], "g": view()})


def F(i: int):
    return SESSION["fns"][i]
