"""TypeAlg terms (JSON form of the tagged tuples of spec/TypeAlg.tla) <-> real guppylang
objects, and term -> Guppy source text.  Used by checks/C13.py and checks/C14.py.

Terms (see the header of TypeAlg.tla):
  ["int"] ["nat"] ["float"] ["bool"] ["str"] ["qubit"] ["none", p] ["tup", p, [t..]]
  ["arr", t, c] ["farr", t, c] ["opt", t] ["fn", [t..], t] ["rec", [t..]] ["st", name, [arg..]]
  ["bv", idx, name, cop, drop]   ["cval", ty, tok] ["bc", idx, name]
  ["T", t] ["C", c] ["-"]        ["tp", idx, name, c, d] ["cp", idx, name, ty, comptime]
"""
from __future__ import annotations

import ast

import gp  # noqa: F401  (activates the shim, /repo on sys.path)

GSTRUCT_SRC = '''
from typing import Generic
from collections.abc import Callable
from guppylang.std.option import Option
from guppylang.std.either import Either
_T = guppy.type_var("T", copyable=False, droppable=False)
_TC = guppy.type_var("T", copyable=True, droppable=False)
_TD = guppy.type_var("T", copyable=False, droppable=True)
_n = guppy.nat_var("n")

@guppy.struct
class G1(Generic[_T]):
    x: _T

@guppy.struct
class GQ(Generic[_T]):
    q: qubit
    x: _T

@guppy.struct
class GA(Generic[_T]):
    xs: array[_T, 2]

@guppy.struct
class GN(Generic[_T, _n]):
    xs: array[_T, _n]

@guppy.struct
class GP(Generic[_T]):
    y: int

@guppy.struct
class GC(Generic[_TC]):
    x: _TC

@guppy.struct
class GD(Generic[_TD]):
    x: _TD

@guppy.struct
class GF(Generic[_T]):
    f: Callable[[_T], _T]
'''

_gstructs: dict | None = None


def gstruct_defs() -> dict:
    """name -> CheckedStructDef of the generic structs of TypeAlg!GStruct (declared once)."""
    global _gstructs
    if _gstructs is None:
        from guppylang_internals.engine import ENGINE

        mod = gp.load(GSTRUCT_SRC, name="_talg_gstructs")
        _gstructs = {n: ENGINE.get_checked(getattr(mod, n).id) for n in ("G1", "GQ", "GA", "GN", "GP", "GC", "GD", "GF")}
    return _gstructs


FLAGS = {"": "NoFlags", "owned": "Owned", "inout": "Inout", "comptime": "Comptime"}


# ---------------------------------------------------------------------------------------
# term -> real objects
# ---------------------------------------------------------------------------------------
def build_type(t, params=None):
    from guppylang_internals.tys import builtin as b
    from guppylang_internals.tys.arg import ConstArg, TypeArg
    from guppylang_internals.tys.ty import (BoundTypeVar, FuncInput, FunctionType, InputFlags, NoneType,
                                            NumericType, StructType, TupleType)

    tag = t[0]
    if tag == "int":
        return b.int_type()
    if tag == "nat":
        return b.nat_type()
    if tag == "float":
        return b.float_type()
    if tag == "bool":
        return b.bool_type()
    if tag == "str":
        return b.string_type()
    if tag == "none":
        return NoneType(preserve=bool(t[1]))
    if tag == "tup":
        return TupleType([build_type(e, params) for e in t[2]], preserve=bool(t[1]))
    if tag == "arr":
        return b.array_type(build_type(t[1], params), build_const(t[2], params))
    if tag == "farr":
        return b.frozenarray_type(build_type(t[1], params), build_const(t[2], params))
    if tag == "opt":
        return b.option_type(build_type(t[1], params))
    if tag == "fn":
        ins = []
        for e in t[1]:
            ty = build_type(e, params)
            ins.append(FuncInput(ty, InputFlags.NoFlags if ty.copyable else InputFlags.Owned))
        return FunctionType(ins, build_type(t[2], params))
    if tag == "st":
        args = [TypeArg(build_type(a[1], params)) if a[0] == "T" else ConstArg(build_const(a[1], params))
                for a in t[2]]
        return StructType(args, gstruct_defs()[t[1]])
    if tag == "bv":
        return BoundTypeVar(t[2], t[1], bool(t[3]), bool(t[4]))
    raise ValueError(f"cannot build type {t}")


def build_const(c, params=None):
    from guppylang_internals.tys.const import BoundConstVar, ConstValue

    if c[0] == "cval":
        return ConstValue(build_type(c[1], params), ast.literal_eval(c[2]))
    if c[0] == "bc":
        # the code caches the binder's type in the occurrence
        return BoundConstVar(params[c[1]].ty, c[2], c[1])
    raise ValueError(c)


def build_param(p, earlier):
    from guppylang_internals.tys.param import ConstParam, TypeParam

    if p[0] == "tp":
        return TypeParam(p[1], p[2], bool(p[3]), bool(p[4]))
    return ConstParam(p[1], p[2], build_type(p[3], earlier), from_comptime_arg=bool(p[4]))


def build_params(ps):
    out = []
    for p in ps:
        out.append(build_param(p, out))
    return out


def build_arg(a, params=None):
    from guppylang_internals.tys.arg import ConstArg, TypeArg

    if a[0] == "-":
        return None
    if a[0] == "T":
        return TypeArg(build_type(a[1], params))
    return ConstArg(build_const(a[1], params))


def build_sig(sig):
    """FunctionType for a spec signature; comptime_args are left to the constructor
    (derived from the from_comptime_arg parameters), the caller checks the projection."""
    from guppylang_internals.tys.ty import FuncInput, FunctionType, InputFlags

    params = build_params(sig["params"])
    inputs = [FuncInput(build_type(x[0], params), getattr(InputFlags, FLAGS[x[1]]), x[2]) for x in sig["inputs"]]
    return FunctionType(inputs, build_type(sig["output"], params), params)


# ---------------------------------------------------------------------------------------
# real objects -> term
# ---------------------------------------------------------------------------------------
class Notes:
    """Deviations that are recorded but are not part of the compared projection."""

    def __init__(self):
        self.stale_const_var_ty = 0  # BoundConstVar whose cached type differs from its binder's
        self._vars = []


def proj_type(ty, notes: Notes | None = None, unmark=False):
    from guppylang_internals.tys import builtin as b
    from guppylang_internals.tys.arg import TypeArg
    from guppylang_internals.tys.ty import (BoundTypeVar, FunctionType, NoneType, NumericType, OpaqueType,
                                            StructType, TupleType)

    if isinstance(ty, FunctionType):
        if ty.parametrized:
            raise ValueError("nested generic function type")
        return ["fn", [proj_type(i.ty, notes) for i in ty.inputs], proj_type(ty.output, notes)]
    if isinstance(ty, TupleType):
        return ["tup", bool(ty.preserve) and not unmark, [proj_type(e, notes) for e in ty.element_types]]
    if isinstance(ty, NoneType):
        return ["none", bool(ty.preserve) and not unmark]
    if isinstance(ty, NumericType):
        return [{NumericType.Kind.Nat: "nat", NumericType.Kind.Int: "int", NumericType.Kind.Float: "float"}[ty.kind]]
    if isinstance(ty, BoundTypeVar):
        return ["bv", ty.idx, ty.display_name, bool(ty.copyable), bool(ty.droppable)]
    if isinstance(ty, OpaqueType):
        d = ty.defn
        if d == b.bool_type_def:
            return ["bool"]
        if d == b.string_type_def:
            return ["str"]
        if d == b.array_type_def:
            return ["arr", proj_type(ty.args[0].ty, notes), proj_const(ty.args[1].const, notes)]
        if d == b.frozenarray_type_def:
            return ["farr", proj_type(ty.args[0].ty, notes), proj_const(ty.args[1].const, notes)]
        if d == b.option_type_def:
            return ["opt", proj_type(ty.args[0].ty, notes)]
        if d.name == "Either":
            return ["either", proj_type(ty.args[0].ty, notes), proj_type(ty.args[1].ty, notes)]
        if d.name == "qubit":
            return ["qubit"]
        raise ValueError(f"opaque type {d.name}")
    if isinstance(ty, StructType):
        return ["st", ty.defn.name, [["T", proj_type(a.ty, notes)] if isinstance(a, TypeArg)
                                     else ["C", proj_const(a.const, notes)] for a in ty.args]]
    raise ValueError(f"cannot project {ty!r}")


def proj_const(c, notes: Notes | None = None):
    from guppylang_internals.tys.const import BoundConstVar, ConstValue

    if isinstance(c, ConstValue):
        return ["cval", proj_type(c.ty, notes, unmark=True), repr(c.value)]
    if isinstance(c, BoundConstVar):
        if notes is not None:
            notes._vars.append(c)
        return ["bc", c.idx, c.display_name]
    raise ValueError(f"cannot project const {c!r}")


def proj_param(p, notes=None):
    from guppylang_internals.tys.param import TypeParam

    if isinstance(p, TypeParam):
        return ["tp", p.idx, p.name, bool(p.must_be_copyable), bool(p.must_be_droppable)]
    return ["cp", p.idx, p.name, proj_type(p.ty, notes), bool(p.from_comptime_arg)]


def flag_name(flags) -> str:
    from guppylang_internals.tys.ty import InputFlags

    for k, v in FLAGS.items():
        if flags == getattr(InputFlags, v):
            return k
    return str(flags)


def proj_sig(f, notes=None):
    if notes is not None:
        notes._vars = []
    out = _proj_sig(f, notes)
    if notes is not None:
        for c in notes._vars:
            if c.idx < len(f.params) and getattr(f.params[c.idx], "ty", None) != c.ty:
                notes.stale_const_var_ty += 1
    return out


def _proj_sig(f, notes=None):
    return {
        "params": [proj_param(p, notes) for p in f.params],
        "inputs": [[proj_type(i.ty, notes), flag_name(i.flags), i.name] for i in f.inputs],
        "output": proj_type(f.output, notes),
        "cargs": [proj_const(a.const, notes) for a in f.comptime_args],
    }


# ---------------------------------------------------------------------------------------
# term -> Guppy source text
# ---------------------------------------------------------------------------------------
class Names:
    """Allocates struct classes for ["rec", fields] shapes; collects their declarations."""

    def __init__(self):
        self.recs: dict[str, str] = {}
        self.decls: list[str] = []

    def rec(self, t, render) -> str:
        import json

        key = json.dumps(t)
        if key not in self.recs:
            fields = [render(f) for f in t[1]]  # declares nested shapes first
            name = f"R{len(self.recs)}"
            self.recs[key] = name
            body = "".join(f"    f{i}: {ft}\n" for i, ft in enumerate(fields)) or "    pass\n"
            self.decls.append(f"@guppy.struct\nclass {name}:\n{body}")
        return self.recs[key]


def type_text(t, names: Names | None = None, var=lambda t: t[2], owned_in_fn=True) -> str:
    """Guppy type annotation for a term. `var` names a bound variable occurrence."""
    r = lambda x: type_text(x, names, var, owned_in_fn)
    tag = t[0]
    if tag in ("int", "nat", "float", "bool", "str", "qubit"):
        return tag
    if tag == "none":
        return "None"
    if tag == "tup":
        return "tuple[" + ", ".join(r(e) for e in t[2]) + "]" if t[2] else "tuple[()]"
    if tag == "arr":
        return f"array[{r(t[1])}, {const_text(t[2], var)}]"
    if tag == "farr":
        return f"frozenarray[{r(t[1])}, {const_text(t[2], var)}]"
    if tag == "opt":
        return f"Option[{r(t[1])}]"
    if tag == "either":
        return f"Either[{r(t[1])}, {r(t[2])}]"
    if tag == "fn":
        return "Callable[[" + ", ".join(r(e) for e in t[1]) + "], " + r(t[2]) + "]"
    if tag == "rec":
        return names.rec(t, r)
    if tag == "st":
        return t[1] + "[" + ", ".join(r(a[1]) if a[0] == "T" else const_text(a[1], var) for a in t[2]) + "]"
    if tag == "bv":
        return var(t)
    raise ValueError(t)


def const_text(c, var=lambda t: t[2]) -> str:
    if c[0] == "cval":
        return c[2]
    if c[0] == "bc":
        return var(c)
    raise ValueError(c)
