"""C20/C26 helpers: render spec operations (spec/QuantumDefs.tla `Op` records) as Guppy source,
run them on the reference interpreter with forced measurement outcomes, convert exact spec
states (Z[e^{i pi/8}] / sqrt2^k) to complex vectors and compare up to a global scalar."""
from __future__ import annotations

import cmath
import math

PRELUDE = """\
from guppylang import guppy, qubit
from guppylang.std.builtins import result, array, owned
from guppylang.std import quantum as Q, qsystem as QS
from guppylang.std.quantum import functional as F
from guppylang.std.qsystem import functional as QF
from guppylang.std.angles import angle, pi
from guppylang.std.debug import state_result
"""

ZETA = [cmath.exp(1j * math.pi * m / 8) for m in range(8)]
TOL = 1e-9

QSYS = {"phased_x": "phased_x", "zz_max": "zz_max", "zz_phase": "zz_phase", "qrz": "rz"}
MEAS = {"project_z", "measure", "qmeasure", "measure_and_reset", "reset", "qreset"}
RETURNS_BOOL = {"project_z", "measure", "qmeasure", "measure_and_reset"}


# ---------------------------------------------------------------------------------------
# exact state -> complex
# ---------------------------------------------------------------------------------------
def amp_to_complex(c, k) -> complex:
    return sum(ci * z for ci, z in zip(c, ZETA)) / (math.sqrt(2) ** k)


def state_to_complex(st) -> list[complex]:
    """st = {"k": K, "a": [[c0..c7], ...]} as printed by OutState."""
    return [amp_to_complex(c, st["k"]) for c in st["a"]]


def proportional(expected: list[complex], observed: list[complex], tol: float = TOL):
    """Is observed = scalar * expected (global phase and normalisation free)?  -> (ok, distance)"""
    ne = math.sqrt(sum(abs(x) ** 2 for x in expected))
    no = math.sqrt(sum(abs(x) ** 2 for x in observed))
    if len(expected) != len(observed) or ne < 1e-12 or no < 1e-12:
        return False, float("inf")
    e = [x / ne for x in expected]
    o = [x / no for x in observed]
    ip = sum(a.conjugate() * b for a, b in zip(e, o))
    if abs(ip) < 1e-12:
        return False, math.sqrt(2.0)
    ph = ip / abs(ip)
    d = math.sqrt(sum(abs(b - ph * a) ** 2 for a, b in zip(e, o)))
    return d <= tol, d


# ---------------------------------------------------------------------------------------
# rendering
# ---------------------------------------------------------------------------------------
def num(k) -> str:
    """dyadic <<num, den>>: den = 1 -> int literal, otherwise the float literal num/den"""
    n, d = k
    return str(n) if d == 1 else repr(n / d)


def angle_src(e) -> str:
    t = e[0]
    if t == "pi":
        return "pi"
    if t == "lit":
        return f"angle({e[1] / 64!r})"
    if t == "neg":
        return f"(-{angle_src(e[1])})"
    if t == "add":
        return f"({angle_src(e[1])} + {angle_src(e[2])})"
    if t == "sub":
        return f"({angle_src(e[1])} - {angle_src(e[2])})"
    if t == "mul":
        return f"({angle_src(e[1])} * {num(e[2])})"
    if t == "rmul":
        return f"({num(e[1])} * {angle_src(e[2])})"
    if t == "div":
        return f"({angle_src(e[1])} / {num(e[2])})"
    if t == "rdiv":
        return f"({num(e[1])} / {angle_src(e[2])})"
    if t == "param":  # C26: a function parameter holding an angle
        return e[1]
    raise ValueError(e)


def op_src(op, tag: str, qv=lambda q: f"q{q}") -> list[str]:
    """Guppy statements for one spec operation; measurement results are reported as result(tag, b)."""
    g, f = op["g"], op.get("f", "p")
    qs = [qv(q) for q in op["qs"]]
    args = ", ".join(qs + [angle_src(a) for a in op.get("a", [])])
    lhs = ", ".join(qs)
    if g in MEAS:
        q = qs[0]
        if g == "project_z":
            s = [f"b = Q.project_z({q})"] if f == "p" else [f"{q}, b = F.project_z({q})"]
        elif g == "measure":
            s = [f"b = Q.measure({q})" if f == "p" else f"b = {q}.measure()", f"{q} = qubit()"]
        elif g == "qmeasure":
            s = [f"b = QS.measure({q})" if f == "p" else f"b = QF.measure({q})", f"{q} = qubit()"]
        elif g == "measure_and_reset":
            s = [f"b = QS.measure_and_reset({q})"] if f == "p" else [f"{q}, b = QF.measure_and_reset({q})"]
        elif g == "reset":
            s = [f"Q.reset({q})"] if f == "p" else [f"{q} = F.reset({q})"]
        else:
            s = [f"QS.reset({q})"] if f == "p" else [f"{q} = QF.reset({q})"]
        if g in RETURNS_BOOL:
            s.append(f'result("{tag}", b)')
        return s
    if g in QSYS:
        return [f"QS.{QSYS[g]}({args})"] if f == "p" else [f"{lhs} = QF.{QSYS[g]}({args})"]
    return [f"Q.{g}({args})"] if f == "p" else [f"{lhs} = F.{g}({args})"]


def circuit_fn(name: str, ops: list, nq: int = 3) -> str:
    """A Guppy function allocating nq qubits, applying ops, reporting the state, discarding."""
    body = ["    " + "; ".join(f"q{i} = qubit()" for i in range(nq))]
    for i, op in enumerate(ops):
        body += ["    " + l for l in op_src(op, f"{name}.m{i}")]
    qlist = ", ".join(f"q{i}" for i in range(nq))
    body.append(f'    state_result("{name}", {qlist})')
    body += [f"    Q.discard(q{i})" for i in range(nq)]
    return f"@guppy\ndef {name}() -> None:\n" + "\n".join(body) + "\n"


def batch_src(cases: list[tuple[str, list]], nq: int = 3) -> str:
    src = "".join(circuit_fn(n, ops, nq) + "\n" for n, ops in cases)
    src += "@guppy\ndef main() -> None:\n" + "".join(f"    {n}()\n" for n, _ in cases)
    return src


def outcomes(ops: list) -> list[int]:
    """forced outcomes in program order: one oracle call per measurement-like operation, except that
    the interpreter's tket.qsystem.MeasureReset measures and then resets (= measures once more, with
    the then certain outcome b)"""
    out = []
    for op in ops:
        if op["g"] in MEAS:
            out += [op["b"], op["b"]] if op["g"] == "measure_and_reset" else [op["b"]]
    return out


# ---------------------------------------------------------------------------------------
# running (worker-side; total)
# ---------------------------------------------------------------------------------------
class Script:
    """measure_oracle forcing a list of outcomes; afterwards (final discards) the likelier one."""

    def __init__(self, bits):
        self.bits = list(bits) if bits is not None else None
        self.i = 0
        self.asked = 0

    def __call__(self, q, p1):
        self.asked += 1
        if self.bits is not None and self.i < len(self.bits) and self.bits[self.i] in (0, 1):
            b = self.bits[self.i]
            self.i += 1
            return b
        if self.bits is not None and self.i < len(self.bits):
            self.i += 1
        return 1 if p1 > 0.5 else 0


def run_batch(job: dict) -> dict:
    """job = {"cases": [[name, ops], ...], "nq": 3, "force": bool, "seed": int, "validate": bool}
    -> {"status": ..., "per": {name: {"state": [[re, im]..] | None, "results": {tag: bool}, "end": ...}}}"""
    import random
    import traceback

    import gp
    import runner
    from guppylang_internals.error import GuppyError
    from hugr_interp import Budget, Interp, InterpError, Unsupported

    res: dict = {"status": "ok", "per": {}}
    cases = job["cases"]
    src = batch_src(cases, job.get("nq", 3))
    res["src"] = src if job.get("keep_src") else None
    mod = None
    try:
        try:
            mod, pkg = runner.compile_src(src, "main", prelude=PRELUDE)
        except GuppyError as e:
            res.update(status="rejected", error=runner.classify_exception(e))
            return res
        except Exception as e:  # noqa: BLE001
            res.update(status="crash", error=runner.classify_exception(e))
            return res
        if job.get("validate", True):
            try:
                gp.validate(pkg)
            except Exception as e:  # noqa: BLE001
                res.update(status="invalid", error={"msg": runner.validation_msg(e)})
                return res
        h = pkg.modules[0]
        for name, ops in cases:
            per: dict = {"state": None, "results": {}, "end": None}
            res["per"][name] = per
            force = outcomes(ops) if job.get("force", True) else None
            rng = random.Random((job.get("seed", 0), name).__repr__())
            script = Script(force) if force is not None else (lambda q, p1: 1 if rng.random() < p1 else 0)
            try:
                it = Interp(h, seed=job.get("seed", 0), budget=200_000, measure_oracle=script)
                out = it.run(name, [])
                per["end"] = "panic" if "panic" in out else "exit" if "exit" in out else "return"
                for e in out["events"]:
                    if e[0] == "state_result" and e[1] == name:
                        per["state"] = None if e[3] is None else [[a.real, a.imag] for a in e[3]]
                    elif e[0] == "result":
                        per["results"][e[1]] = e[3]
                per["gates"] = [[e[1], list(e[2]), list(e[3])] for e in out["events"] if e[0] == "gate"]
            except Budget:
                per["end"] = "budget"
            except Unsupported as e:
                per["end"] = "unsupported"
                per["msg"] = str(e)
            except InterpError as e:
                per["end"] = "interp_error"
                per["msg"] = str(e)
        return res
    except BaseException as e:  # noqa: BLE001
        res.update(status="machinery", error={"class": type(e).__name__, "msg": str(e)[:500],
                                               "tb": traceback.format_exc()[-2000:]})
        return res
    finally:
        if mod is not None:
            gp.unload(mod)
