"""Integer-literal programs for C17: one tiny Guppy program per (value, type, syntactic form),
compiled from /repo and run on the reference interpreter (pool job `run_lit_job`)."""
from __future__ import annotations

import random

import num_values as nv

FORMS_INT = ["assign", "ret", "arg", "syn", "paren", "tuple", "array", "ct_var", "ct_expr", "ct_tuple", "ct_list", "ct_ret"]
FORMS_NAT = ["assign", "ret", "arg", "paren", "tuple", "array", "ct_var", "ct_expr", "ct_tuple", "ct_list", "ct_ret"]


def lit(v: int) -> str:
    return str(v) if v >= 0 else f"-{-v}"


def program(v: int, ty: str, form: str) -> tuple[str, int] | None:
    """-> (source, minus) or None when the form does not apply; minus = 1 when the value is written
    as a negated literal (folded by the CFG builder)"""
    head = f"V = {v}\n@guppy\ndef g(x: {ty}) -> {ty}:\n    return x\n@guppy\ndef f() -> {ty}:\n"
    tail = '    result("v", x)\n    return x\n'
    minus = 1 if v < 0 else 0
    if form == "assign":
        return head + f"    x: {ty} = {lit(v)}\n" + tail, minus
    if form == "ret":
        return head + f"    return {lit(v)}\n", minus
    if form == "arg":
        return head + f"    x = g({lit(v)})\n" + tail, minus
    if form == "syn":
        return head + f"    x = {lit(v)}\n" + tail, minus
    if form == "paren":
        if v >= 0:
            return None
        return head + f"    x: {ty} = -({-v})\n" + tail, 1
    if form == "tuple":
        return head + f"    t: tuple[{ty}, int] = ({lit(v)}, 7)\n    x = t[0]\n" + tail, minus
    if form == "array":
        return head + f"    xs: array[{ty}, 2] = array({lit(v)}, 1)\n    x = xs[0]\n" + tail, minus
    if form == "ct_var":
        return head + f"    x: {ty} = comptime(V)\n" + tail, 0
    if form == "ct_expr":
        return head + f"    x: {ty} = comptime(({v - 1}) + 1)\n" + tail, 0
    if form == "ct_tuple":
        return head + f"    t: tuple[{ty}, int] = comptime((V, 7))\n    x = t[0]\n" + tail, 0
    if form == "ct_list":
        return head + f"    xs: frozenarray[{ty}, 2] = comptime([V, 1])\n    x = xs[0]\n" + tail, 0
    if form == "ct_ret":
        return head + "    return comptime(V)\n", 0
    raise ValueError(form)


def values(tier: str, seed: int) -> list[int]:
    rng = random.Random(f"C17:{seed}")
    vs = set()
    deltas = (0, 1, 2) if tier == "quick" else (0, 1, 2, 3, 7)
    for base in (-(1 << 63), (1 << 63) - 1, (1 << 64) - 1, 0):
        for d in deltas:
            vs.add(base + d)
            vs.add(base - d)
    pows = (31, 32, 62, 63, 64, 65, 70) if tier == "quick" else range(1, 71)
    for k in pows:
        vs.add(1 << k)
        vs.add(-(1 << k))
        if tier != "quick":
            vs.add((1 << k) - 1)
            vs.add(-(1 << k) - 1)
    n = 10 if tier == "quick" else 600
    while len(vs) < (52 if tier == "quick" else 460):
        bits = rng.choice([8, 30, 53, 62, 63, 64, 64, 65, 66, 72, 80])
        vs.add(rng.getrandbits(bits) * rng.choice([1, -1]))
        n -= 1
    return sorted(vs)


def cases(tier: str, seed: int) -> list[dict]:
    out = []
    for v in values(tier, seed):
        for ty, forms in (("int", FORMS_INT), ("nat", FORMS_NAT)):
            for form in forms:
                p = program(v, ty, form)
                if p is None:
                    continue
                out.append({"id": len(out), "v": v, "ty": ty, "form": form, "src": p[0], "minus": p[1]})
    return out


def run_lit_job(job: dict) -> list[dict]:
    """job = {"cases": [...]} -> per case {"id", "st", "ret", "rk", "rv", "err"}"""
    import gp
    from guppylang_internals.error import GuppyError
    from hugr_interp import Budget, Exit, Interp, InterpError, Panic, Unsupported

    out = []
    for c in job["cases"]:
        r = {"id": c["id"], "st": "?", "ret": 0, "rk": "none", "rv": 0, "err": ""}
        mod = None
        try:
            mod = gp.load(c["src"])
            try:
                pkg = mod.f.compile_function()
            except GuppyError as e:
                r.update(st="rejected", err=type(e.error).__name__)
                out.append(r)
                continue
            it = Interp(pkg.modules[0])
            try:
                outs = it.call(it.find_func("f"), [], ())
            except (Panic, Exit) as e:
                r.update(st="panic", err=str(e.msg)[:200])
                out.append(r)
                continue
            except (Budget, Unsupported, InterpError) as e:
                r.update(st="machinery", err=f"{type(e).__name__}: {e}"[:300])
                out.append(r)
                continue
            v = outs[0]
            if not isinstance(v, int) or isinstance(v, bool):
                r.update(st="machinery", err=f"output {v!r}")
                out.append(r)
                continue
            r.update(st="ok", ret=v & nv.MAXU)
            for ev in it.events:
                if ev[0] == "result" and ev[1] == "v":
                    r.update(rk=ev[2], rv=int(ev[3]) & nv.MAXU)
        except Exception as e:  # compiler crash: an observation, reported by the check
            r.update(st="crash", err=f"{type(e).__name__}: {e}"[:300])
        finally:
            if mod is not None:
                gp.unload(mod)
        out.append(r)
    return out
