"""Integer-literal programs for C17: one tiny Guppy program per (value, type, syntactic form),
compiled from /repo and run on the reference interpreter (pool job `run_lit_job`)."""
from __future__ import annotations

import random

import num_values as nv

SCALAR_FORMS = ["assign", "ret", "arg", "syn", "paren", "ct_var", "ct_expr", "ct_ret"]
SCALAR_FEW = ["assign", "ret", "ct_var"]
# constants with several elements: the value under test sits at element position pos (0 = first,
# 1 = middle, 2 = last, in flattened order), the other elements are the in-range fillers 1 and 2
CONTAINER_FORMS = ["tuple", "array", "ct_tuple", "ct_list", "ntuple", "ct_ntuple"]
FILL = [1, 2]


def lit(v: int) -> str:
    return str(v) if v >= 0 else f"-{-v}"


def elements(v: int, pos: int) -> list[int]:
    els = list(FILL)
    els.insert(pos, v)
    return els


def program(v: int, ty: str, form: str, pos: int = 0):
    """-> (source, elements, observed index) or None when the form does not apply. A negative element of
    a literal form is written as a negated literal (folded by the CFG builder)."""
    tail = '    result("v", x)\n    return x\n'
    if form in CONTAINER_FORMS:
        els = elements(v, pos)
        a, b, c = els
        head = f"V = ({a}, {b}, {c})\nW = [{a}, {b}, {c}]\nN = (({a}, {b}), {c})\n@guppy\ndef f() -> {ty}:\n"
        idx = f"[{pos}]"
        nidx = "[1]" if pos == 2 else f"[0][{pos}]"
        if form == "tuple":
            body = f"    t: tuple[{ty}, {ty}, {ty}] = ({lit(a)}, {lit(b)}, {lit(c)})\n    x = t{idx}\n"
        elif form == "array":
            body = f"    xs: array[{ty}, 3] = array({lit(a)}, {lit(b)}, {lit(c)})\n    x = xs{idx}\n"
        elif form == "ct_tuple":
            body = f"    t: tuple[{ty}, {ty}, {ty}] = comptime(V)\n    x = t{idx}\n"
        elif form == "ct_list":
            body = f"    xs: frozenarray[{ty}, 3] = comptime(W)\n    x = xs{idx}\n"
        elif form == "ntuple":
            body = f"    t: tuple[tuple[{ty}, {ty}], {ty}] = (({lit(a)}, {lit(b)}), {lit(c)})\n    x = t{nidx}\n"
        else:
            body = f"    t: tuple[tuple[{ty}, {ty}], {ty}] = comptime(N)\n    x = t{nidx}\n"
        minus = form in ("tuple", "array", "ntuple")
        return head + body + tail, [(e, 1 if (minus and e < 0) else 0) for e in els], pos
    head = f"V = {v}\n@guppy\ndef g(x: {ty}) -> {ty}:\n    return x\n@guppy\ndef f() -> {ty}:\n"
    minus = 1 if v < 0 else 0
    if form == "assign":
        return head + f"    x: {ty} = {lit(v)}\n" + tail, [(v, minus)], 0
    if form == "ret":
        return head + f"    return {lit(v)}\n", [(v, minus)], 0
    if form == "arg":
        return head + f"    x = g({lit(v)})\n" + tail, [(v, minus)], 0
    if form == "syn":
        if ty != "int":
            return None
        return head + f"    x = {lit(v)}\n" + tail, [(v, minus)], 0
    if form == "paren":
        if v >= 0:
            return None
        return head + f"    x: {ty} = -({-v})\n" + tail, [(v, 1)], 0
    if form == "ct_var":
        return head + f"    x: {ty} = comptime(V)\n" + tail, [(v, 0)], 0
    if form == "ct_expr":
        return head + f"    x: {ty} = comptime(({v - 1}) + 1)\n" + tail, [(v, 0)], 0
    if form == "ct_ret":
        return head + "    return comptime(V)\n", [(v, 0)], 0
    raise ValueError(form)


def anchor_values(tier: str) -> list[int]:
    vs = set()
    deltas = (0, 1, 2) if tier == "quick" else (0, 1, 2, 3, 7)
    for base in (-(1 << 63), (1 << 63) - 1, (1 << 64) - 1, 0):
        for d in deltas:
            vs.add(base + d)
            vs.add(base - d)
    return sorted(vs)


def values(tier: str, seed: int) -> list[int]:
    rng = random.Random(f"C17:{seed}")
    vs = set(anchor_values(tier))
    pows = (31, 32, 62, 63, 64, 65, 70) if tier == "quick" else range(1, 71)
    for k in pows:
        vs.add(1 << k)
        vs.add(-(1 << k))
        if tier != "quick":
            vs.add((1 << k) - 1)
            vs.add(-(1 << k) - 1)
    while len(vs) < (44 if tier == "quick" else 400):
        bits = rng.choice([8, 30, 53, 62, 63, 64, 64, 65, 66, 72, 80])
        vs.add(rng.getrandbits(bits) * rng.choice([1, -1]))
    return sorted(vs)


def cases(tier: str, seed: int) -> list[dict]:
    """Boundary values (anchors) take every form and, in constants with several elements, EVERY element
    position; the other values take every container form at one position (rotating) and, in the quick
    tier, a few scalar forms."""
    out = []
    anchors = set(anchor_values(tier))
    for n, v in enumerate(values(tier, seed)):
        full = v in anchors or tier != "quick"
        for ty in ("int", "nat"):
            todo = [(f, 0) for f in (SCALAR_FORMS if full else SCALAR_FEW)]
            for k, f in enumerate(CONTAINER_FORMS):
                todo += [(f, p) for p in ((0, 1, 2) if v in anchors else ((n + k) % 3,))]
            for form, pos in todo:
                p = program(v, ty, form, pos)
                if p is None:
                    continue
                out.append({"id": len(out), "v": v, "ty": ty, "form": form if form not in CONTAINER_FORMS else f"{form}@{pos}",
                            "src": p[0], "els": p[1], "pos": p[2]})
    return out


def run_lit_job(job: dict) -> list[dict]:
    """job = {"cases": [...]} -> per case {"id", "st", "ret", "rk", "rv", "err"}"""
    import gp
    from guppylang_internals.error import GuppyError
    from hugr_interp import Budget, Exit, Interp, InterpError, Panic, Unsupported

    out = []
    for c in job["cases"]:
        r = {"id": c["id"], "st": "?", "ret": 0, "rk": "none", "rv": 0, "err": ""}
        mod = None
        try:
            mod = gp.load(c["src"])
            try:
                pkg = mod.f.compile_function()
            except GuppyError as e:
                r.update(st="rejected", err=type(e.error).__name__)
                out.append(r)
                continue
            it = Interp(pkg.modules[0])
            try:
                outs = it.call(it.find_func("f"), [], ())
            except (Panic, Exit) as e:
                r.update(st="panic", err=str(e.msg)[:200])
                out.append(r)
                continue
            except (Budget, Unsupported, InterpError) as e:
                r.update(st="machinery", err=f"{type(e).__name__}: {e}"[:300])
                out.append(r)
                continue
            v = outs[0]
            if not isinstance(v, int) or isinstance(v, bool):
                r.update(st="machinery", err=f"output {v!r}")
                out.append(r)
                continue
            r.update(st="ok", ret=v & nv.MAXU)
            for ev in it.events:
                if ev[0] == "result" and ev[1] == "v":
                    r.update(rk=ev[2], rv=int(ev[3]) & nv.MAXU)
        except Exception as e:  # compiler crash: an observation, reported by the check
            r.update(st="crash", err=f"{type(e).__name__}: {e}"[:300])
        finally:
            if mod is not None:
                gp.unload(mod)
        out.append(r)
    return out
