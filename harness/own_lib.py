"""C22 helpers: render a case printed by spec/ComptimeOwn.tla as a @guppy.comptime function and
compile it with /repo's guppylang.

A case is {ty, origin, prog: [{op, p}], ret, rshape, verdict, reason, at}; paths p are 1-based index
sequences below the subject `x`; ret = [0] means the body falls off the end, ret = [9] `return x, x`.
"""
from __future__ import annotations

PRELUDE_EXTRA = '''
from guppylang.std.builtins import array, owned
from guppylang.std.option import Option
import hugr.tys as _ht
n = guppy.nat_var("n")

@guppy.type(_ht.Tuple(), copyable=False, droppable=True)
class Aff:
    """non-copyable but droppable"""

@guppy.struct
class S:
    a: qubit
    b: qubit

@guppy.struct
class SA:
    qs: array[qubit, 2]
    q: qubit

@guppy.declare
def new_q() -> qubit: ...
@guppy.declare
def new_i() -> int: ...
@guppy.declare
def new_f() -> Aff: ...
@guppy.declare
def use_q(v: qubit @owned) -> None: ...
@guppy.declare
def bor_q(v: qubit) -> None: ...
@guppy.declare
def use_i(v: int) -> None: ...
@guppy.declare
def use_f(v: Aff @owned) -> None: ...
@guppy.declare
def bor_f(v: Aff) -> None: ...
@guppy.declare
def new_o() -> Option[array[int, 2]]: ...
@guppy.declare
def use_o(v: Option[array[int, 2]] @owned) -> None: ...
@guppy.declare
def bor_o(v: Option[array[int, 2]]) -> None: ...
@guppy.declare
def use_pair_q(v: tuple[qubit, qubit] @owned) -> None: ...
@guppy.declare
def use_pair_i(v: tuple[int, int]) -> None: ...
@guppy.declare
def use_pair_f(v: tuple[Aff, Aff] @owned) -> None: ...
@guppy.declare
def use_pair_o(v: tuple[Option[array[int, 2]], Option[array[int, 2]]] @owned) -> None: ...
@guppy.declare
def use_aq(v: array[qubit, n] @owned) -> None: ...
@guppy.declare
def bor_aq(v: array[qubit, n]) -> None: ...
@guppy.declare
def use_ai(v: array[int, n] @owned) -> None: ...
@guppy.declare
def bor_ai(v: array[int, n]) -> None: ...
@guppy.declare
def use_tq(v: tuple[qubit, qubit] @owned) -> None: ...
@guppy.declare
def bor_tq(v: tuple[qubit, qubit]) -> None: ...
@guppy.declare
def use_ta(v: tuple[array[qubit, n], qubit] @owned) -> None: ...
@guppy.declare
def bor_ta(v: tuple[array[qubit, n], qubit]) -> None: ...
@guppy.declare
def use_sq(v: S @owned) -> None: ...
@guppy.declare
def bor_sq(v: S) -> None: ...
@guppy.declare
def use_sa(v: SA @owned) -> None: ...
@guppy.declare
def bor_sa(v: SA) -> None: ...
'''

# static description of the subject types: kind, children (static type names), field names
STATIC = {
    "Q": ("leaf", [], None), "I": ("leaf", [], None), "F": ("leaf", [], None), "O": ("leaf", [], None),
    "AQ": ("list", ["Q", "Q"], None), "AI": ("list", ["I", "I"], None),
    "TQ": ("tuple", ["Q", "Q"], None), "TA": ("tuple", ["AQ", "Q"], None),
    "SQ": ("struct", ["Q", "Q"], ["a", "b"]), "SA": ("struct", ["AQ", "Q"], ["qs", "q"]),
}
ANNOT = {"Q": "qubit", "I": "int", "F": "Aff", "O": "Option[array[int, 2]]", "AQ": "array[qubit, 2]", "AI": "array[int, 2]",
         "TQ": "tuple[qubit, qubit]", "TA": "tuple[array[qubit, 2], qubit]", "SQ": "S", "SA": "SA"}
CTOR = {"Q": "new_q()", "I": "new_i()", "F": "new_f()", "O": "new_o()", "AQ": "[new_q(), new_q()]", "AI": "[new_i(), new_i()]",
        "TQ": "(new_q(), new_q())", "TA": "([new_q(), new_q()], new_q())", "SQ": "S(new_q(), new_q())",
        "SA": "SA([new_q(), new_q()], new_q())"}
FRESH = {"Q": "new_q()", "I": "new_i()", "F": "new_f()", "O": "new_o()"}


def walk(ty: str, path):
    """-> (expression, static type, static type of the parent or None)"""
    expr, t, parent = "x", ty, None
    for i in path:
        kind, kids, names = STATIC[t]
        parent = t
        if kind == "struct":
            expr += "." + names[i - 1]
            t = kids[i - 1]
        else:
            expr += f"[{i - 1}]"
            # lists are homogeneous: an index beyond the declared length has the element type
            t = kids[min(i, len(kids)) - 1]
    return expr, t, parent


def annot_from_shape(t: str, shape) -> str:
    """Return annotation: the static type with list lengths taken from the spec's shape."""
    kind, kids, _ = STATIC[t]
    if kind == "leaf" or kind == "struct":
        return ANNOT[t]
    if kind == "list":
        n = len(shape[1])
        return f"array[{ANNOT[kids[0]]}, {n}]"
    return "tuple[" + ", ".join(annot_from_shape(k, s) for k, s in zip(kids, shape[1])) + "]"


def render(case: dict) -> str:
    ty, origin = case["ty"], case["origin"]
    lines = []
    for st in case["prog"]:
        op, p = st["op"], st["p"]
        e, t, parent = walk(ty, p)
        if op == "use":
            lines.append(f"use_{t.lower()}({e})")
        elif op == "borrow":
            lines.append(f"bor_{t.lower()}({e})")
        elif op == "usepair":
            lines.append(f"use_pair_{t.lower()}(({e}, {e}))")
        elif op == "usewith":
            lines.append(f"use_pair_{t.lower()}(({e}, {FRESH[t]}))")
        elif op.startswith("setattr"):
            kind, kids, names = STATIC[t]
            last = f"{e}.{names[-1]}"
            rhs = {"setattr_same": last, "setattr_fresh": FRESH.get(kids[-1], "None"),
                   "setattr_alias": f"{e}.{names[0]}"}[op]
            lines.append(f"{last} = {rhs}")
        else:
            elem = STATIC[t][1][0]
            f = FRESH[elem]
            in_tuple = parent is not None and STATIC[parent][0] == "tuple"
            lines.append({
                "append": f"{e}.append({f})",
                "extend": f"{e}.extend([{f}])",
                "insert": f"{e}.insert(0, {f})",
                "pop": f"{e}.pop()",
                "popuse": f"use_{elem.lower()}({e}.pop())",
                "remove": f"{e}.remove({e}[0])",
                "clear": f"{e}.clear()",
                "sort": f"{e}.sort(key=lambda _v: 0)",
                "reverse": f"{e}.reverse()",
                "reinit": f"{e}.__init__({e}[::-1])",
                "setitem": f"{e}[0] = {f}",
                "setalias": f"{e}[0] = {e}[1]",
                "delitem": f"del {e}[0]",
                # `t[0] += ...` on a tuple element would end in Python's own TypeError after the list method ran
                "iadd": f"{e}.__iadd__([{f}])" if in_tuple else f"{e} += [{f}]",
                "imul1": f"{e}.__imul__(1)" if in_tuple else f"{e} *= 1",
                "imul2": f"{e}.__imul__(2)" if in_tuple else f"{e} *= 2",
            }[op])
    if case["ret"] == [0]:
        rann = "None"
    elif case["ret"] == [9]:
        rann = f"tuple[{ANNOT[ty]}, {ANNOT[ty]}]"
        lines.append("return x, x")
    else:
        e, t, _ = walk(ty, case["ret"])
        try:
            rann = annot_from_shape(t, case["rshape"])
        except Exception:  # noqa: BLE001
            rann = ANNOT[t]
        lines.append(f"return {e}")
    if origin == "local":
        sig = f"def main() -> {rann}:"
        lines.insert(0, f"x = {CTOR[ty]}")
    elif origin == "owned":
        sig = f"def main(x: {ANNOT[ty]}{'' if ty == 'I' else ' @owned'}) -> {rann}:"
    else:
        sig = f"def main(x: {ANNOT[ty]}) -> {rann}:"
    if not lines:
        lines = ["pass"]
    return "@guppy.comptime\n" + sig + "\n" + "".join(f"    {l}\n" for l in lines)


def classify_reason(err: dict, rendered: str | None) -> str:
    msg = (err.get("msg") or "") + " " + (rendered or "") + " " + (err.get("title") or "")
    if "already used" in msg:
        return "reuse"
    if "is leaked" in msg:
        return "leak"
    if "mutation won't be" in msg or "won't be visible" in msg:
        return "frozen"
    return "shape"


def body_lines(case: dict) -> int:
    """line (1-based, within render(case)) of statement 1 of the body"""
    return 3 + (1 if case["origin"] == "local" else 0)


_PRELUDE = None


def run_case(case: dict) -> dict:
    """Pool worker: compile + validate one rendered body with /repo. Total.
    -> status ok | rejected (a Guppy error) | crash (any other exception) | invalid (HUGR validation failed)
       impl_at: for rejected/crash: k >= 1 if the exception was raised while statement k of the body was executing
       (a frame of the rendered function is on the traceback), 0 if it was raised after the body had returned"""
    import traceback

    import gp
    import runner
    from guppylang_internals.error import GuppyError

    global _PRELUDE
    if _PRELUDE is None:
        _PRELUDE = gp.PRELUDE + PRELUDE_EXTRA
    src = render(case)
    out = {"src": src}
    mod = None
    try:
        try:
            mod = gp.load(src, prelude=_PRELUDE)
            pkg = mod.main.compile_function()
        except BaseException as e:  # noqa: BLE001
            if isinstance(e, (KeyboardInterrupt, SystemExit)):
                raise
            info = runner.classify_exception(e)
            guppy = isinstance(e, GuppyError) or info["class"] in ("GuppyComptimeError", "GuppyTypeError")
            out["status"] = "rejected" if guppy else "crash"
            out["error"] = {k: v for k, v in info.items() if k != "tb"}
            fname = getattr(mod, "__file__", None)
            at = 0
            for fr in traceback.extract_tb(e.__traceback__):
                if fname is not None and fr.filename == fname and fr.name == "main":
                    at = fr.lineno - _PRELUDE.count("\n") - body_lines(case) + 1
            out["impl_at"] = at
            rendered = None
            if isinstance(e, GuppyError):
                try:
                    rendered = runner.render_error(e)
                except Exception:  # noqa: BLE001
                    rendered = None
            if guppy:
                out["impl_reason"] = classify_reason(info, rendered)
            else:
                out["tb"] = "".join(traceback.format_exception(e))[-1500:]
            return out
        try:
            gp.validate(pkg)
        except Exception as e:  # noqa: BLE001
            out["status"] = "invalid"
            out["error"] = {"class": type(e).__name__, "msg": runner.validation_msg(e)}
            return out
        out["status"] = "ok"
        return out
    finally:
        if mod is not None:
            gp.unload(mod)


def run_chunk(cases: list) -> list:
    return [run_case(c) for c in cases]
