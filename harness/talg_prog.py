"""C13(b): render the program family of spec/TypeAlg_Mono.tla from the records TLC prints,
compile each variant from /repo, validate, inspect the Hugr function definitions and run
on the reference interpreter.

A record `rec` (one TLC case) holds for `foo` and `mid`: the generic signature, the
signature with exactly the monomorphised parameters substituted (`partial`), with all
parameters substituted (`closed`), the name->argument substitutions for the body text,
the expected Hugr type parameters, and the expected events.  Everything that is a
*decision* (parameter order, inferred arguments, which parameters are specialised,
specialised types and ownership flags, expected output) comes from the record; this
module only prints it as Guppy source.
"""
from __future__ import annotations

import json

import talg_terms as tt

VARIANTS = ("generic", "partial", "closed")
SIGKEY = {"generic": "generic", "partial": "partial", "closed": "closed"}
SUBKEY = {"generic": None, "partial": "psubst", "closed": "csubst"}


def val_text(v, box=lambda inner: "G1", comptime=False) -> str:
    tag = v[0]
    if tag in ("int", "nat"):
        return str(v[1])
    if tag == "half":
        return repr(v[1] / 2)
    if tag == "negzero":
        return "-0.0"
    if tag == "bool":
        return "True" if v[1] else "False"
    if tag == "tup":
        s = "(" + ", ".join(val_text(x) for x in v[1]) + ("," if len(v[1]) == 1 else "") + ")"
        return f"comptime({s})" if comptime else s
    if tag == "arr":
        return "array(" + ", ".join(val_text(x) for x in v[1]) + ")"
    if tag == "box":
        return f"{box(v[1])}({val_text(v[1])})"
    raise ValueError(v)


def val_events(tagname: str, v) -> list:
    """Events `result(tagname, ..)` statements produce for a value (see print_stmts)."""
    tag = v[0]
    if tag == "int":
        return [[tagname, "int", v[1]]]
    if tag == "nat":
        return [[tagname, "uint", v[1]]]
    if tag == "half":
        return [[tagname, "f64", v[1] / 2]]
    if tag == "negzero":
        return [[tagname, "f64", -0.0]]
    if tag == "bool":
        return [[tagname, "bool", bool(v[1])]]
    if tag in ("tup", "arr"):
        return [e for x in v[1] for e in val_events(tagname, x)]
    raise ValueError(v)


def print_stmts(tagname: str, var: str, v, ind="    ") -> list[str]:
    tag = v[0]
    if tag in ("int", "nat", "half", "bool", "negzero"):
        return [f'{ind}result("{tagname}", {var})']
    if tag == "tup":
        names = [f"{var}_{i}" for i in range(len(v[1]))]
        out = [f"{ind}{', '.join(names)}{',' if len(names) == 1 else ''} = {var}"]
        for n, x in zip(names, v[1]):
            out += print_stmts(tagname, n, x, ind)
        return out
    if tag == "arr":
        return [f"{ind}for {var}_v in {var}:"] + print_stmts(tagname, f"{var}_v", v[1][0], ind + "    ")
    raise ValueError(v)


def expected_events(rec) -> list:
    """Expected result events of the whole program: round 1 then round 2."""
    return [e for rd in rec["rounds"] for tagname, v in rd["expected"] for e in val_events(tagname, v)]


def strict(events) -> list:
    """Events in a form whose equality distinguishes -0.0 from 0.0 and bool from int."""
    return [[t, k, repr(v)] for t, k, v in events]


def round_view(rec, r: int) -> dict:
    """The record of one call of mid (round r = 0, 1) in the single-call layout Render uses."""
    rd = rec["rounds"][r]
    return {"id": rec["id"], "actuals": rd["actuals"], "boxes": rec["boxes"], "expected": rd["expected"],
            "foo": dict(rd["foo"], generic=rec["gen"]["foo"]), "mid": dict(rd["mid"], generic=rec["gen"]["mid"])}


def const_token(c) -> str:
    """Source text for a ConstValue term in expression position."""
    assert c[0] == "cval", c
    ty, tok = c[1], c[2]
    if isinstance(tok, list):  # ["val", value]
        s = val_text(tok[1])
    else:
        s = tok
    return f"nat({s})" if ty[0] == "nat" else s


class Render:
    def __init__(self, rec, variant, suffix="", shared=None, rnd=0):
        self.rec, self.variant, self.suffix, self.rnd = rec, variant, suffix, rnd
        self.slots = rec["id"]["slots"]
        self.foo = rec["foo"][SIGKEY[variant]]
        self.mid = rec["mid"][SIGKEY[variant]]
        self.boxes = rec["boxes"]  # tv -> field type of G1[targ]
        self.sh = shared if shared is not None else {"box_names": {}, "decls": [], "uses_g1": False, "uses_tag": False}
        self.box_names = self.sh["box_names"]
        self.decls = self.sh["decls"]

    @property
    def uses_g1(self):
        return self.sh["uses_g1"]

    @uses_g1.setter
    def uses_g1(self, v):
        self.sh["uses_g1"] = v

    # -- types ---------------------------------------------------------------------
    def ty(self, t) -> str:
        if t[0] == "st" and t[1] == "G1":
            arg = t[2][0][1]
            if not _has_var(arg):
                return self.box_class(arg)
            self.uses_g1 = True
            return f"G1[{self.ty(arg)}]"
        if t[0] == "st" and t[1] == "Tag":
            c = t[2][0][1]
            if c[0] == "cval":  # the hand-specialised copy of Tag for this constant
                name = "Tag_" + self.const(c)
                decl = f"@guppy.struct\nclass {name}:\n    pass\n"
                if decl not in self.decls:
                    self.decls.append(decl)
                return name
            self.sh["uses_tag"] = True
            return f"Tag[{c[2]}]"
        if t[0] == "tup":
            return "tuple[" + ", ".join(self.ty(e) for e in t[2]) + "]"
        if t[0] == "arr":
            return f"array[{self.ty(t[1])}, {self.const(t[2])}]"
        if t[0] == "bv":
            return t[2]
        if t[0] in ("int", "nat", "float", "bool"):
            return t[0]
        raise ValueError(t)

    def const(self, c) -> str:
        if c[0] == "bc":
            return c[2]
        tok = c[2]
        return val_text(tok[1]) if isinstance(tok, list) else tok

    def box_class(self, arg) -> str:
        """The hand-specialised copy of G1 for a closed argument."""
        key = json.dumps(_unmark(arg))
        if key not in self.box_names:
            name = f"G1_{len(self.box_names)}"
            self.box_names[key] = name
            self.decls.append(f"@guppy.struct\nclass {name}:\n    x: {self.ty(arg)}\n")
        return self.box_names[key]

    # -- functions -----------------------------------------------------------------
    def subst(self, fn) -> dict:
        k = SUBKEY[self.variant]
        return {} if k is None else {name: arg for name, arg in self.rec[fn][k]}

    def kept_inputs(self, sig):
        """(input, kept?) - a comptime input whose constant is known is substituted away."""
        out, ci = [], 0
        for x in sig["inputs"]:
            if x[1] == "comptime":
                out.append((x, sig["cargs"][ci][0] != "cval"))
                ci += 1
            else:
                out.append((x, True))
        return out

    def header(self, name, sig) -> str:
        parts = []
        for x, keep in self.kept_inputs(sig):
            if keep:
                parts.append(f"{x[2]}: {self.ty(x[0])}" + (f" @{x[1]}" if x[1] else ""))
        return f"@guppy\ndef {name}{self.suffix}({', '.join(parts)}) -> {self.ty(sig['output'])}:\n"

    def ref(self, name, sub) -> str:
        a = sub.get(name)
        return name if a is None else const_token(a[1])

    def foo_src(self) -> str:
        sub = self.subst("foo")
        gen = self.rec["foo"]["generic"]
        names = {i: x[2] for i, x in enumerate(gen["inputs"])}  # slot order = input order
        # a substituted constant keeps its type: it is bound once, typed, at the top of the copy
        # (a bare literal `7` in argument position could be read at another numeric type)
        lines = [f"    {name} = {const_token(a[1])}" for name, a in sub.items() if a[0] == "C"]
        sub = {}
        for i, s in enumerate(self.slots):
            if s[0] in ("K", "M"):
                lines.append(f'    result("{names[i]}", {self.ref(names[i], sub)})')
            elif s[0] == "G":  # the const parameter the struct type carries, used as a value
                bname = gen["inputs"][i][0][2][0][1][2]
                lines.append(f'    result("{bname}", {bname})')
        for p in gen["params"]:
            if p[0] == "cp" and p[3] == ["nat"] and not p[4]:
                lines.append(f'    result("{p[2]}", {self.ref(p[2], sub)})')
        lines.append("    s = 0")
        for i, s in enumerate(self.slots):
            if s[0] == "A":
                lines += [f"    for v{i} in {names[i]}:", f"        s += v{i}"]
            elif s[0] == "K":
                lines.append(f"    s += {self.ref(names[i], sub)}")
        rets = []
        for i, s in enumerate(self.slots):
            if s[0] == "V":
                rets.append(names[i])
            elif s[0] == "D":
                rets.append(self.ref(names[i], sub))
            elif s[0] == "B":
                rets.append(f"{names[i]}.x")
        rets.append("s")
        lines.append("    return " + ", ".join(rets))
        return self.header("foo", self.foo) + "\n".join(lines) + "\n"

    def mid_src(self) -> str:
        sub = self.subst("mid")
        args = []
        for x, keep in self.kept_inputs(self.foo):
            if keep:
                args.append(self.ref(x[2], sub) if x[1] == "comptime" else x[2])
        return self.header("mid", self.mid) + f"    return foo{self.suffix}({', '.join(args)})\n"

    def call_stmts(self) -> list[str]:
        """Statements of main for this round: call mid and print what it returns."""
        R = self.rnd + 1
        actual = {}
        gen_foo_inputs = self.rec["foo"]["generic"]["inputs"]
        for i, x in enumerate(gen_foo_inputs):
            actual[x[2]] = (self.rec["actuals"][i], self.slots[i], i)
        pre, args = [], []
        for x, keep in self.kept_inputs(self.mid):
            if not keep:
                continue
            v, s, i = actual[x[2]]
            if s[0] == "B":
                cls = self.ty(x[0])
                cls = "G1" if cls.startswith("G1[") else cls
                args.append(val_text(v, box=lambda inner, cls=cls: cls))
            elif s[0] == "G":
                cls = self.ty(x[0])
                if cls.startswith("Tag["):  # generic struct: the constant is given by annotation
                    pre.append(f"    tg{R}_{i}: Tag[{val_text(['bool', v[1]])}] = Tag()")
                    args.append(f"tg{R}_{i}")
                else:
                    args.append(f"{cls}()")
            else:
                args.append(val_text(v, comptime=(x[1] == "comptime")))
        rets = [i for i, s in enumerate(self.slots) if s[0] in ("V", "D", "B")]
        names = [f"r{R}_{j}" for j in range(len(rets) + 1)]
        lines = pre + [f"    {', '.join(names)} = mid{self.suffix}({', '.join(args)})"]
        for nm, i in zip(names, rets):
            v = self.rec["actuals"][i]
            lines += print_stmts("r", nm, v[1] if v[0] == "box" else v)
        lines.append(f'    result("r", {names[-1]})')
        return lines

    def head_lines(self) -> list[str]:
        head = []
        for sig in (self.foo, self.mid):
            for p in sig["params"]:
                if p[0] == "tp":
                    head.append(f'{p[2]} = guppy.type_var("{p[2]}", copyable={p[3]}, droppable={p[4]})')
                elif not p[4] and p[3] == ["nat"]:
                    head.append(f'{p[2]} = guppy.nat_var("{p[2]}")')
                elif not p[4]:
                    head.append(f'{p[2]} = guppy.const_var("{p[2]}", "{p[3][0]}")')
        return head


def render(rec, variant) -> str:
    """One program: (generic) foo, mid, main calling mid once per round; or (partial/closed)
    one textual copy foo_r / mid_r per round."""
    shared = {"box_names": {}, "decls": [], "uses_g1": False, "uses_tag": False}
    nr = len(rec["rounds"])
    rs = [Render(round_view(rec, r), variant, "" if variant == "generic" else f"_{r + 1}", shared, r) for r in range(nr)]
    defs = []
    for r in (rs[:1] if variant == "generic" else rs):
        defs += [r.foo_src(), r.mid_src()]
    body = [ln for r in rs for ln in r.call_stmts()]
    head = ["from typing import Generic"]
    for r in rs:
        for ln in r.head_lines():
            if ln not in head:
                head.append(ln)
    if shared["uses_g1"]:
        head.append('_B = guppy.type_var("_B", copyable=False, droppable=False)\n'
                    "@guppy.struct\nclass G1(Generic[_B]):\n    x: _B\n")
    if shared["uses_tag"]:
        head.append('_Bq = guppy.const_var("_Bq", "bool")\n@guppy.struct\nclass Tag(Generic[_Bq]):\n    pass\n')
    main = "@guppy\ndef main() -> None:\n" + "\n".join(body) + "\n"
    return "\n".join(head) + "\n" + "\n".join(shared["decls"]) + "\n" + "\n".join(defs) + "\n" + main


def func_names(rec, variant) -> list[str]:
    if variant == "generic":
        return ["foo", "mid"]
    return [f"{f}_{r + 1}" for f in ("foo", "mid") for r in range(len(rec["rounds"]))]


def expected_defs(rec, variant) -> dict:
    """name -> sorted list of Hugr type-parameter lists, one per expected FuncDefn."""
    out = {}
    if variant == "generic":
        for f in ("foo", "mid"):
            seen = {}
            for rd in rec["rounds"]:
                seen[json.dumps(rd[f]["mono"])] = rd[f]["hugr"]
            out[f] = sorted(seen.values())
    else:
        for f in ("foo", "mid"):
            for r, rd in enumerate(rec["rounds"]):
                out[f"{f}_{r + 1}"] = [[] if variant == "closed" else rd[f]["hugr"]]
    return out


def _has_var(t) -> bool:
    if isinstance(t, list):
        if t and t[0] in ("bv", "bc"):
            return True
        return any(_has_var(x) for x in t)
    return False


def _unmark(t):
    if isinstance(t, list):
        if t and t[0] == "tup":
            return ["tup", False, [_unmark(x) for x in t[2]]]
        if t and t[0] == "none":
            return ["none", False]
        return [_unmark(x) for x in t]
    return t


# ---------------------------------------------------------------------------------------
# execution (module-level so that pool.map_jobs can use it)
# ---------------------------------------------------------------------------------------
def hugr_param_names(params) -> list[str]:
    import hugr.tys as ht

    out = []
    for p in params:
        if isinstance(p, ht.TypeTypeParam):
            out.append("type:" + ("Copyable" if p.bound == ht.TypeBound.Copyable else "Linear"))
        elif isinstance(p, ht.BoundedNatParam):
            out.append("nat")
        else:
            out.append(type(p).__name__)
    return out


def run_variant(job: dict) -> dict:
    """job = {"id", "src", "funcs": [names]} -> {"status", "events", "defs": {name: [[params]..]}}"""
    import runner
    from guppylang_internals.error import GuppyError
    from hugr import ops
    from hugr_interp import Budget, Interp, InterpError, Unsupported

    res = {"id": job["id"]}
    mod = None
    try:
        try:
            mod, pkg = runner.compile_src(job["src"], "main")
        except GuppyError as e:
            res.update(status="rejected", error=runner.classify_exception(e))
            try:
                res["rendered"] = runner.render_error(e)[-1500:]
            except Exception:
                pass
            return res
        except Exception as e:
            res.update(status="crash", error=runner.classify_exception(e))
            return res
        try:
            gp.validate(pkg)
        except Exception as e:
            res.update(status="invalid", error={"msg": runner.validation_msg(e)})
            return res
        h = pkg.modules[0]
        defs: dict = {}
        for n in h.children(h.module_root):
            op = h[n].op
            if isinstance(op, ops.FuncDefn) and op.f_name in job["funcs"]:
                defs.setdefault(op.f_name, []).append(hugr_param_names(op.params))
        res["defs"] = defs
        try:
            out = Interp(h, sched="min", seed=0, budget=300_000).run("main", [])
            res["events"] = [list(e[1:]) for e in runner.jsonable_events(out["events"]) if e[0] == "result"]
            res["other_events"] = [e for e in runner.jsonable_events(out["events"]) if e[0] != "result"]
            res["end"] = "panic" if "panic" in out else "exit" if "exit" in out else "return"
            res["status"] = "ok"
        except (Budget, Unsupported, InterpError) as e:
            res.update(status="interp", error={"class": type(e).__name__, "msg": str(e)[:400]})
        return res
    except BaseException as e:  # noqa: BLE001
        import traceback

        res.update(status="machinery", error={"class": type(e).__name__, "msg": str(e)[:400],
                                             "tb": traceback.format_exc()[-1500:]})
        return res
    finally:
        if mod is not None:
            gp.unload(mod)


import gp  # noqa: E402
