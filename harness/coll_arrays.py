"""C19 helpers: driver programs over `array[int, n]` / `array[qubit, n]`, script encoding.

One compiled Guppy function per (element kind, n, observer, script length); the operations
and their indices arrive as RUNTIME arguments (arrays of op codes / first index / second
index), so the subscripts in the program are genuinely dynamic.
"""
from __future__ import annotations

INT_OPS = {"get": 1, "set": 2, "aug": 3, "swap": 4}
QUBIT_OPS = {"get": 1, "flip": 2, "swap": 3, "cx": 4}

HELPERS = '''
from guppylang.std.mem import mem_swap

@guppy
def emit(x: int) -> int:
    result("c", x)
    return x + 100

@guppy
def mq(q: qubit @ owned) -> bool:
    b = measure(q)
    result("c", b)
    return b
'''


def _names(n):
    return [f"e{k}" for k in range(n)]


def observer_src(kind: str, n: int, term: str) -> str:
    """Statements (indented by 4) that report the whole array `xs`."""
    rd = (lambda e: e) if kind == "int" else (lambda e: f"measure({e})")
    rest = (lambda r: r) if kind == "int" else (lambda r: f"measure_array({r})")
    names = _names(n)
    lines = []
    if term == "index":
        if kind == "int":
            lines += [f'result("c", xs[{k}])' for k in range(n)]
        else:
            lines += [f'result("c", project_z(xs[{k}]))' for k in range(n)]
            lines += ["discard_array(xs)"]
    elif term == "unpack":
        lines += [", ".join(names) + ("," if n == 1 else "") + " = xs"]
        lines += [f'result("c", {rd(e)})' for e in names]
    elif term == "starL":
        lines += ["e0, *r = xs", f'result("c", {rd("e0")})', f'result("rest", {rest("r")})']
    elif term == "starR":
        lines += ["*r, e1 = xs", f'result("rest", {rest("r")})', f'result("c", {rd("e1")})']
    elif term == "starM":
        lines += ["e0, *r, e1 = xs", f'result("c", {rd("e0")})', f'result("rest", {rest("r")})',
                  f'result("c", {rd("e1")})']
    elif term == "starLL":
        lines += ["e0, e1, *r = xs", f'result("c", {rd("e0")})', f'result("c", {rd("e1")})', f'result("rest", {rest("r")})']
    elif term == "starRR":
        lines += ["*r, e0, e1 = xs", f'result("rest", {rest("r")})', f'result("c", {rd("e0")})', f'result("c", {rd("e1")})']
    elif term == "iter":
        lines += ["for e in xs:", f'    result("c", {rd("e")})']
    elif term == "comp":
        f = "emit" if kind == "int" else "mq"
        lines += [f"ys = array({f}(e) for e in xs)", 'result("ys", ys)']
    elif term == "copy":
        assert kind == "int"
        lines += ["ys = xs.copy()", f"for j in range({n}):", "    xs[j] = -1", 'result("ys", ys)', 'result("xs", xs)']
    else:
        raise ValueError(term)
    return "".join("    " + l + "\n" for l in lines)


def driver_src(kind: str, n: int, term: str, length: int) -> str:
    sig = f"ops: array[int, {length}], a: array[int, {length}], b: array[int, {length}]"
    if kind == "int":
        init = "    xs = array(" + ", ".join(str(10 + k) for k in range(n)) + ")\n"
        body = '''        if op == 1:
            result("get", xs[a[k]])
        elif op == 2:
            xs[a[k]] = 20 + k
            result("ok", 0)
        elif op == 3:
            xs[a[k]] += 100
            result("ok", 0)
        elif op == 4:
            xs[a[k]], xs[b[k]] = xs[b[k]], xs[a[k]]
            result("ok", 0)
'''
    else:
        init = f"    xs = array(qubit() for _ in range({n}))\n    x(xs[0])\n"
        body = '''        if op == 1:
            result("get", project_z(xs[a[k]]))
        elif op == 2:
            x(xs[a[k]])
            result("ok", 0)
        elif op == 3:
            mem_swap(xs[a[k]], xs[b[k]])
            result("ok", 0)
        elif op == 4:
            cx(xs[a[k]], xs[b[k]])
            result("ok", 0)
'''
    loop = f"    for k in range({length}):\n        op = ops[k]\n" + body if length > 0 else ""
    return (HELPERS + f"\n@guppy\ndef main({sig}) -> None:\n" + init + loop + observer_src(kind, n, term))


def encode(kind: str, script: list, length: int) -> list:
    codes = INT_OPS if kind == "int" else QUBIT_OPS
    pad = length - len(script)
    if pad < 0:
        raise ValueError("script longer than driver")
    return [[codes[o[0]] for o in script] + [0] * pad,
            [o[1] for o in script] + [0] * pad,
            [o[2] for o in script] + [0] * pad]


def project(events: list) -> list:
    """Interpreter events -> [[tag, [ints]], ...] in the vocabulary of spec/Arrays.tla."""
    out = []
    for e in events:
        if e[0] == "result":
            tag, kind, v = e[1], e[2], e[3]
            if tag in ("ok",):
                out.append(["ok", []])
            elif kind in ("int", "uint"):
                out.append([tag, [v]])
            elif kind == "bool":
                out.append([tag, [int(v)]])
            elif kind in ("array_int", "array_uint"):
                out.append([tag, list(v)])
            elif kind == "array_bool":
                out.append([tag, [int(x) for x in v]])
            else:
                out.append([tag, [kind]])
        elif e[0] in ("panic", "exit"):
            out.append(["panic", []])
    return out


def show(s: dict) -> str:
    def one(o):
        return f"{o[0]}({o[1]})" if o[0] in ("get", "set", "aug", "flip") else f"{o[0]}({o[1]},{o[2]})"
    return f"{s['kind']}[{s['n']}] " + " ".join(one(o) for o in s["ops"]) + f" | {s['term']}"
