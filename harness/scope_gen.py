"""C08: structured programs over 2 variables x 2 types as JSON ASTs (input of spec/Scoping.tla),
their rendering to Guppy source, and an independent well-formedness check.

Statement records (field "k"):
  asg v t | cpy v s | use v | comp v u [e] | if c a b [elif] | while c a | for v a | break | continue | ret | def a
`c` is "c" (the bool parameter of main) or a variable name (the condition reads it).
comp = `ws = array(<elt> for <v> in range(3))`: v in va|vb|vt is the comprehension's own variable; u is the outer
variable the element expression reads ("-" if none: then e = "lit" (1) or "tgt" (the target itself)).
"l" (1-based line inside the rendered source text) is filled in by `render`.

Statements after a jump (dead code) are generated too: Guppy checks them along never-taken
edges and spec/Scoping.tla models exactly that.  Never generated: literal True/False conditions
and `while True`.
"""
from __future__ import annotations

import json
import random

VARS = ("va", "vb")
TYPES = ("int", "bool")
CONDS = ("c", "va", "vb")
LIT = {"int": ("1", "2", "0"), "bool": ("True", "False")}

HEADER = "@guppy\ndef main(c: bool, n: int) -> None:\n"


# ---------------------------------------------------------------------------------------
# structure helpers
# ---------------------------------------------------------------------------------------
def always_jumps(ss: list) -> bool:
    """Does control never fall off the end of this statement list?"""
    if not ss:
        return False
    s = ss[-1]
    if s["k"] in ("break", "continue", "ret"):
        return True
    if s["k"] == "if":
        return always_jumps(s["a"]) and always_jumps(s["b"])
    return False


def has_dead(ss: list) -> bool:
    """Does some statement follow one that always jumps?"""
    for i, s in enumerate(ss):
        if i > 0 and always_jumps(ss[:i]):
            return True
        if any(has_dead(s[f]) for f in ("a", "b") if f in s):
            return True
    return False


def all_lines(ss: list) -> set:
    out = set()
    for s in ss:
        out.add(s.get("l"))
        for f in ("a", "b"):
            if f in s:
                out |= all_lines(s[f])
    return out


def inner_dead_lines(ss: list, in_def: bool = False) -> set:
    """Lines (of a rendered body) of statements in dead code of a nested function."""
    out = set()
    for i, s in enumerate(ss):
        if in_def and i > 0 and always_jumps(ss[:i]):
            out |= all_lines(ss[i:])
            break
        for f in ("a", "b"):
            if f in s:
                out |= inner_dead_lines(s[f], in_def or s["k"] == "def")
    return out


def size(ss: list) -> int:
    n = 0
    for s in ss:
        n += 1
        for f in ("a", "b"):
            if f in s:
                n += size(s[f])
    return n


def depth(ss: list) -> int:
    d = 0
    for s in ss:
        for f in ("a", "b"):
            if f in s:
                d = max(d, 1 + depth(s[f]))
    return d


def wellformed(ss: list, in_loop=False, in_def=False, top=True) -> str | None:
    """Independent check of the generator's promises; returns a reason or None."""
    for i, s in enumerate(ss):
        k = s["k"]
        if k in ("break", "continue") and not in_loop:
            return f"{k} outside loop"
        if k == "def":
            if in_def:
                return "def in def"
            r = wellformed(s["a"], False, True, False)
            if r:
                return r
        elif k == "if":
            if s["c"] not in CONDS:
                return "bad cond"
            for f in ("a", "b"):
                r = wellformed(s[f], in_loop, in_def, False)
                if r:
                    return r
        elif k in ("while", "for"):
            if k == "while" and s["c"] not in CONDS:
                return "bad cond"
            r = wellformed(s["a"], True, in_def, False)
            if r:
                return r
    return None


def swap_vars(ss: list) -> list:
    m = {"va": "vb", "vb": "va"}
    out = []
    for s in ss:
        t = dict(s)
        for f in ("v", "s", "c", "u"):
            if f in t:
                t[f] = m.get(t[f], t[f])
        for f in ("a", "b"):
            if f in t:
                t[f] = swap_vars(t[f])
        out.append(t)
    return out


def key(ss: list) -> str:
    def strip(ss):
        return [{f: (strip(v) if f in ("a", "b") else v) for f, v in s.items() if f != "l"} for s in ss]
    return json.dumps(strip(ss), sort_keys=True)


def canonical(ss: list) -> bool:
    """Representative of the va<->vb symmetry class."""
    return key(ss) <= key(swap_vars(ss))


# ---------------------------------------------------------------------------------------
# rendering
# ---------------------------------------------------------------------------------------
def render(body: list, rng: random.Random | None = None) -> tuple[str, list]:
    """Returns (source text, body with line numbers). Lines are 1-based within the text."""
    body = json.loads(json.dumps(body))  # tree copy (the enumerator shares sub-objects)
    lines = HEADER.rstrip("\n").split("\n")
    ctr = [0]

    def lit(t):
        return LIT[t][0] if rng is None else rng.choice(LIT[t])

    def emit(ind, text):
        lines.append("    " * ind + text)
        return len(lines)

    def block(ss, ind):
        if not ss:
            emit(ind, "pass")
        for s in ss:
            stmt(s, ind)

    def stmt(s, ind, elif_=False):
        k = s["k"]
        if k == "asg":
            s["l"] = emit(ind, f"{s['v']} = {lit(s['t'])}")
        elif k == "cpy":
            s["l"] = emit(ind, f"{s['v']} = {s['s']}")
        elif k == "use":
            s["l"] = emit(ind, f"{s['v']}")
        elif k == "comp":
            elt = s["u"] if s["u"] != "-" else (s["v"] if s.get("e") == "tgt" else "1")
            s["l"] = emit(ind, f"ws = array({elt} for {s['v']} in range(3))")
        elif k == "if":
            s["l"] = emit(ind, f"{'elif' if elif_ else 'if'} {s['c']}:")
            block(s["a"], ind + 1)
            b = s["b"]
            if b:
                if s.get("elif") and len(b) == 1 and b[0]["k"] == "if":
                    stmt(b[0], ind, elif_=True)
                else:
                    emit(ind, "else:")
                    block(b, ind + 1)
        elif k == "while":
            s["l"] = emit(ind, f"while {s['c']}:")
            block(s["a"], ind + 1)
        elif k == "for":
            s["l"] = emit(ind, f"for {s['v']} in range(n):")
            block(s["a"], ind + 1)
        elif k == "break":
            s["l"] = emit(ind, "break")
        elif k == "continue":
            s["l"] = emit(ind, "continue")
        elif k == "ret":
            s["l"] = emit(ind, "return")
        elif k == "def":
            ctr[0] += 1
            s["l"] = emit(ind, f"def f{ctr[0]}() -> None:")
            block(s["a"], ind + 1)
        else:
            raise ValueError(k)

    block(body, 1)
    return "\n".join(lines) + "\n", body


def flatten(body: list) -> list:
    """Tree -> table of statement lists for the spec: lists[0] is the body of main; the fields
    a / b of compound statements become 1-based indices into the table (TLA+ sequences)."""
    lists: list = []

    def add(ss):
        idx = len(lists)
        lists.append(None)
        out = []
        for s in ss:
            t = {f: v for f, v in s.items() if f not in ("a", "b", "elif")}
            for f in ("a", "b"):
                if f in s:
                    t[f] = add(s[f])
            out.append(t)
        lists[idx] = out
        return idx + 1

    add(body)
    return lists


def has_def(ss: list) -> bool:
    return any(s["k"] == "def" or any(has_def(s[f]) for f in ("a", "b") if f in s) for s in ss)


# ---------------------------------------------------------------------------------------
# enumeration / sampling
# ---------------------------------------------------------------------------------------
def atoms(in_loop: bool) -> list:
    out = [{"k": "asg", "v": v, "t": t} for v in VARS for t in TYPES]
    out += [{"k": "cpy", "v": "va", "s": "vb"}, {"k": "cpy", "v": "vb", "s": "va"}]
    out += [{"k": "use", "v": v} for v in VARS]
    return out


def comp_atoms() -> list:
    out = []
    for v in (*VARS, "vt"):
        out += [{"k": "comp", "v": v, "u": "-", "e": "lit"}, {"k": "comp", "v": v, "u": "-", "e": "tgt"}]
        out += [{"k": "comp", "v": v, "u": u} for u in VARS if u != v]
    return out


def line_info(ss: list, depth_: int = 0, in_def: bool = False, out: dict | None = None) -> dict:
    """line -> (statement, number of enclosing if/loop bodies, inside a nested function?)"""
    out = {} if out is None else out
    for s in ss:
        out[s.get("l")] = (s, depth_, in_def)
        for f in ("a", "b"):
            if f in s:
                line_info(s[f], depth_ + (s["k"] != "def"), in_def or s["k"] == "def", out)
    return out


def shadow_live_across(body: list, v: str, comp_line: int, read_lines: set) -> bool:
    """Vacuity-guard helper: the comprehension at comp_line (binding v) sits in a non-entry block of main and some
    read of v in `read_lines` lies in a later, enclosing block with no assignment to v in between."""
    info = line_info(body)
    _, d, in_def = info[comp_line]
    if in_def or d == 0:
        return False
    for r in read_lines:
        if r > comp_line and not info[r][2] and info[r][1] < d and not any(
                comp_line < l <= r and st["k"] in ("asg", "cpy", "for") and st.get("v") == v for l, (st, _, _) in info.items()):
            return True
    return False


def has_comp(ss: list) -> bool:
    return any(s["k"] == "comp" or any(has_comp(s[f]) for f in ("a", "b") if f in s) for s in ss)


def comp_family() -> list:
    """Comprehensions whose variable may coincide with an enclosing local: the local assigned in the entry block /
    an earlier block / on one path / never; the comprehension in the entry block, an if arm, a loop body, a nested
    function, a later block; reads of the local before and after."""
    asg = lambda v, t: {"k": "asg", "v": v, "t": t}
    use = lambda v: {"k": "use", "v": v}
    IF = lambda a, b: {"k": "if", "c": "c", "a": a, "b": b}
    pres = [[asg("va", "int")], [asg("va", "bool")], [IF([asg("va", "int")], [asg("va", "int")])], [IF([asg("va", "bool")], [])], []]
    comps = [{"k": "comp", "v": "va", "u": "-", "e": "lit"}, {"k": "comp", "v": "va", "u": "-", "e": "tgt"},
             {"k": "comp", "v": "va", "u": "vb"}, {"k": "comp", "v": "vb", "u": "va"}, {"k": "comp", "v": "vt", "u": "va"},
             {"k": "comp", "v": "vt", "u": "-", "e": "lit"}]
    places = [
        lambda c: [c],
        lambda c: [IF([c], [])],
        lambda c: [IF([], [c])],
        lambda c: [IF([use("va"), c], [])],
        lambda c: [{"k": "while", "c": "c", "a": [c]}],
        lambda c: [{"k": "for", "v": "vi", "a": [c, use("va")]}],
        lambda c: [{"k": "def", "a": [c]}],
        lambda c: [IF([{"k": "def", "a": [use("va"), c]}], [])],
        lambda c: [IF([], []), c],
        lambda c: [{"k": "while", "c": "c", "a": [IF([c], [{"k": "continue"}])]}],
    ]
    posts = [[], [use("va")], [{"k": "cpy", "v": "vb", "s": "va"}, use("vb")], [{"k": "if", "c": "va", "a": [], "b": []}]]
    out, seen = [], set()
    for pre in pres:
        for c in comps:
            for pl in places:
                for post in posts:
                    p = json.loads(json.dumps(pre + pl(c) + post))
                    if key(p) not in seen:
                        seen.add(key(p))
                        out.append(p)
    return out


def jumps(in_loop: bool) -> list:
    return [{"k": "ret"}] + ([{"k": "break"}, {"k": "continue"}] if in_loop else [])


def enum_lists(n: int, d: int, in_loop: bool, in_def: bool, memo: dict):
    """All statement lists of total size exactly n, nesting <= d (dead code included)."""
    mk = (n, d, in_loop, in_def)
    if mk in memo:
        return memo[mk]
    res = []
    if n == 0:
        res = [[]]
    else:
        for k1 in range(1, n + 1):  # size of the first statement
            for first in enum_stmts(k1, d, in_loop, in_def, memo):
                for rest in enum_lists(n - k1, d, in_loop, in_def, memo):
                    res.append([first, *rest])
    memo[mk] = res
    return res


def enum_stmts(n: int, d: int, in_loop: bool, in_def: bool, memo: dict):
    mk = ("s", n, d, in_loop, in_def)
    if mk in memo:
        return memo[mk]
    res = []
    if n == 1:
        res += atoms(in_loop) + jumps(in_loop)
    if d > 0:
        m = n - 1
        for c in CONDS:
            for na in range(0, m + 1):
                for a in enum_lists(na, d - 1, in_loop, in_def, memo):
                    for b in enum_lists(m - na, d - 1, in_loop, in_def, memo):
                        res.append({"k": "if", "c": c, "a": a, "b": b})
            for a in enum_lists(m, d - 1, True, in_def, memo):
                res.append({"k": "while", "c": c, "a": a})
        for v in (*VARS, "vi"):
            for a in enum_lists(m, d - 1, True, in_def, memo):
                res.append({"k": "for", "v": v, "a": a})
        if not in_def:
            for a in enum_lists(m, d - 1, False, True, memo):
                res.append({"k": "def", "a": a})
    memo[mk] = res
    return res


def enumerate_programs(max_size: int, max_depth: int = 3):
    memo: dict = {}
    for n in range(1, max_size + 1):
        for p in enum_lists(n, max_depth, False, False, memo):
            if canonical(p):
                yield p


def jump_family() -> list:
    """Loops whose head / tail are joins of three or more edges (entry, back edge, continue / break):
    pre-assignment x loop kind x body shape x jump x type x use after the loop."""
    out = []
    for pre in (None, "int", "bool"):
        for loop in ("while", "for-vi", "for-va"):
            for j in ("break", "continue"):
                for t in TYPES:
                    asg = {"k": "asg", "v": "va", "t": t}
                    jif = {"k": "if", "c": "c", "a": [{"k": j}], "b": []}
                    bodies = [
                        [jif, asg],
                        [asg, jif],
                        [{"k": "if", "c": "c", "a": [asg, {"k": j}], "b": []}],
                        [{"k": "if", "c": "c", "a": [{"k": j}], "b": [asg]}],
                        [{"k": "use", "v": "va"}, jif, asg],
                        [{"k": "if", "c": "c", "a": [asg, {"k": j}], "b": [{"k": "if", "c": "c", "a": [{"k": "continue"}], "b": []}]}],
                    ]
                    for body in bodies:
                        for post in ([], [{"k": "use", "v": "va"}], [{"k": "cpy", "v": "vb", "s": "va"}, {"k": "use", "v": "vb"}]):
                            p = [] if pre is None else [{"k": "asg", "v": "va", "t": pre}]
                            if loop == "while":
                                p.append({"k": "while", "c": "c", "a": body})
                            else:
                                p.append({"k": "for", "v": loop[4:], "a": body})
                            out.append(json.loads(json.dumps(p + post)))
    return out


def dead_family() -> list:
    """Code after return/break/continue that reads a variable, where the statement list first crosses
    a block boundary (if / loop) and assigns the variable after it, inside it, or not at all."""
    asg = lambda v, t: {"k": "asg", "v": v, "t": t}
    use = lambda v: {"k": "use", "v": v}
    IF = lambda a, b: {"k": "if", "c": "c", "a": a, "b": b}
    boundaries = [
        ([IF([], [])], False), ([{"k": "while", "c": "c", "a": []}], False), ([{"k": "for", "v": "vi", "a": []}], False),
        ([IF([asg("va", "int")], [asg("va", "int")])], True), ([IF([asg("va", "int")], [asg("va", "bool")])], True),
        ([IF([asg("va", "int")], [])], True), ([{"k": "while", "c": "c", "a": [asg("va", "int")]}], True),
        ([{"k": "for", "v": "va", "a": []}], True), ([], False),
    ]
    tails = [[use("va")], [{"k": "cpy", "v": "vb", "s": "va"}, use("vb")], [{"k": "if", "c": "va", "a": [], "b": []}],
             [{"k": "def", "a": [use("va")]}], [asg("va", "bool"), use("va")], [IF([asg("va", "bool")], []), use("va")],
             [{"k": "ret"}, use("va")]]
    out = []
    for bnd, assigns in boundaries:
        for mid in ([], [asg("va", "int")], [asg("vb", "int")]):
            for tail in tails:
                core = bnd + mid
                out.append(core + [{"k": "ret"}] + tail)                                   # top level
                out.append([IF(core + [{"k": "ret"}] + tail, [])])                        # inside an if arm
                out.append([IF(core + [{"k": "ret"}] + tail, [{"k": "ret"}]), use("va")])  # dead arm falls into the code after the if
                for j in ("break", "continue"):
                    out.append([{"k": "while", "c": "c", "a": core + [{"k": j}] + tail}, use("va")])
                out.append([asg("va", "int"), {"k": "for", "v": "vi", "a": core + [IF([{"k": "break"}], [{"k": "continue"}])] + tail}])
    # dead code inside a nested function that reads an outer variable, the definition sitting behind a
    # block boundary of main (the captured-variable computation and the checker must agree on such reads)
    for rd in ([use("vb")], [{"k": "cpy", "v": "va", "s": "vb"}], [{"k": "if", "c": "vb", "a": [], "b": []}]):
        d = {"k": "def", "a": [{"k": "ret"}] + rd}
        out.append([asg("vb", "int"), IF([d], [])])
        out.append([asg("vb", "int"), {"k": "while", "c": "c", "a": [d]}])
        out.append([asg("vb", "int"), {"k": "for", "v": "va", "a": [d]}, use("va")])
        out.append([IF([asg("vb", "int")], []), IF([d], [])])
    seen, res = set(), []
    for p in out:
        p = json.loads(json.dumps(p))
        if key(p) not in seen and depth(p) <= 3:
            seen.add(key(p))
            res.append(p)
    return res


def random_list(rng: random.Random, budget: int, d: int, in_loop: bool, in_def: bool) -> list:
    """Random statement list of total size <= budget (>= 1 if budget >= 1)."""
    out = []
    while budget > 0:
        s, used = random_stmt(rng, budget, d, in_loop, in_def)
        out.append(s)
        budget -= used
        if always_jumps(out) and rng.random() < 0.6:
            break
        if rng.random() < 0.15:
            break
    return out


def random_stmt(rng: random.Random, budget: int, d: int, in_loop: bool, in_def: bool):
    r = rng.random()
    if budget == 1 or d == 0 or r < 0.45:
        r2 = rng.random()
        if r2 < 0.12:
            return dict(rng.choice(jumps(in_loop))), 1
        if r2 < 0.22:
            return dict(rng.choice(comp_atoms())), 1
        return dict(rng.choice(atoms(in_loop))), 1
    inner = budget - 1
    kind = rng.choices(["if", "while", "for", "def"], [5, 3, 2, 0 if in_def else 2])[0]
    if kind == "if":
        na = rng.randint(0, inner)
        a = random_list(rng, na, d - 1, in_loop, in_def) if na else []
        rem = inner - size(a)
        b = random_list(rng, rng.randint(0, rem), d - 1, in_loop, in_def) if rem and rng.random() < 0.7 else []
        s = {"k": "if", "c": rng.choice(CONDS), "a": a, "b": b}
        if len(b) == 1 and b[0]["k"] == "if" and rng.random() < 0.6:
            s["elif"] = True
        return s, 1 + size(a) + size(b)
    if kind == "while":
        a = random_list(rng, rng.randint(0, inner), d - 1, True, in_def)
        return {"k": "while", "c": rng.choice(CONDS), "a": a}, 1 + size(a)
    if kind == "for":
        a = random_list(rng, rng.randint(0, inner), d - 1, True, in_def)
        return {"k": "for", "v": rng.choice((*VARS, "vi")), "a": a}, 1 + size(a)
    a = random_list(rng, rng.randint(1, inner) if inner else 0, d - 1, False, True)
    return {"k": "def", "a": a}, 1 + size(a)


def random_program(rng: random.Random, max_size: int = 7, max_depth: int = 3) -> list:
    while True:
        n = rng.randint(3, max_size)
        # most programs start by assigning one or both variables, so that reads further down are
        # not trivially undefined (accepted / maybe / different-types cases are the interesting ones)
        pre = []
        for v in VARS:
            if rng.random() < 0.55:
                pre.append({"k": "asg", "v": v, "t": rng.choice(TYPES)})
        p = pre + random_list(rng, max(1, n - len(pre)), max_depth, False, False)
        if size(p) >= 3 and size(p) <= max_size and depth(p) <= max_depth:
            return p
