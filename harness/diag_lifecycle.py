"""C02 binding: run one program through the engine lifecycle and record what happened.

run_program(job) -> {"id", "status", "traces": [trace...], ...}   (total; never raises)
  job = {"id", "src", "experimental": bool}
A *trace* is the lifecycle of one top-level Guppy definition of the program, a list of
events (records with uniform fields, consumed by spec/Lifecycle_Trace.tla):
  {"stage": "parse"|"check"|"compile"|"validate", "out": "ok"|"reject"|"exc"|"invalid"|"timeout",
   "located": bool, "rendered": bool, "cls": str, "site": str}
 * "reject" = a GuppyError escaped; located = the main span and the spans of all children
   are valid locations of registered source and - when in the program's own file - lie inside
   a decorated definition; rendered = DiagnosticsRenderer rendered it without raising and
   produced a header naming the error's title.
 * "exc" = any other exception class; site = innermost /repo frame (file:function#line text).
Programs whose module body fails in plain Python (SyntaxError, NameError from an annotation
that Python itself evaluates, ...) with no /repo frame at the raising end are not cases.
"""
from __future__ import annotations

import ast
import signal
import traceback
import warnings

import gp
import diag_seeds

EV = {"stage": "", "out": "", "located": False, "rendered": False, "cls": "", "site": ""}


def ev(stage, out, **kw):
    e = dict(EV)
    e.update(stage=stage, out=out, **kw)
    return e


class _Timeout(BaseException):
    pass


_FIRED = False  # did the timer of the current job expire (even if the exception got lost or replaced)?


def _alarm(signum, frame):
    global _FIRED
    _FIRED = True
    raise _Timeout()


def _set_alarm(seconds: float) -> None:
    """(Re)arm the per-job timer.  It repeats every 2 s after the first expiry: an exception raised
    from the handler is lost when it lands in a context that ignores exceptions (C-level
    isinstance checks, __del__), so it has to be raised again until it gets through."""
    global _FIRED
    if seconds:
        _FIRED = False
    signal.setitimer(signal.ITIMER_REAL, seconds, 2.0 if seconds else 0.0)


def raise_site(exc: BaseException) -> str:
    import lib

    frames = traceback.extract_tb(exc.__traceback__)
    repo = [f for f in frames if f.filename.startswith(lib.REPO)]
    if not repo:
        return ""
    f = repo[-1]
    rel = f.filename.split("guppylang_internals/")[-1].split("/src/")[-1]
    return f"{rel}:{f.name}#{(f.line or '').strip()[:70]}"


def stage_of(exc: BaseException) -> str:
    """Which lifecycle stage raised.  engine.compile() = check() then lowering; inside
    check() the first frame below the engine's drivers is <definition>.parse or .check."""
    frames = traceback.extract_tb(exc.__traceback__)
    eng = [i for i, f in enumerate(frames) if f.filename.endswith("guppylang_internals/engine.py")]
    if not any(frames[i].name == "check" for i in eng):
        return "compile" if eng else "check"
    first_check = next(i for i in eng if frames[i].name == "check")
    for f in frames[first_check + 1:]:
        if f.filename.endswith("guppylang_internals/engine.py") or f.filename.endswith("guppylang_internals/error.py"):
            continue
        return "parse" if f.name == "parse" else "check"
    return "check"


def decorated_ranges(src_text: str, offset: int = 0):
    """Line ranges (1-based, in the loaded file) of decorated top-level defs/classes."""
    out = []
    try:
        tree = ast.parse(src_text)
    except SyntaxError:
        return out
    for node in tree.body:
        if isinstance(node, ast.FunctionDef | ast.ClassDef | ast.AsyncFunctionDef) and node.decorator_list:
            lo = min(d.lineno for d in node.decorator_list)
            out.append((lo + offset, (node.end_lineno or node.lineno) + offset))
    return out


def spans_of(diag):
    from guppylang_internals.span import to_span

    out = []
    if diag.span is not None:
        out.append(to_span(diag.span))
    for ch in diag.children:
        if ch.span is not None:
            out.append(to_span(ch.span))
    return out


def located(diag, own_file, ranges, sources) -> tuple[bool, str]:
    """All spans valid locations in registered source; own-file spans inside a decorated def."""
    try:
        spans = spans_of(diag)
    except Exception as e:  # noqa: BLE001
        return False, f"to_span raised {type(e).__name__}: {e}"
    if diag.span is None:
        return False, "diagnostic has no span"
    for s in spans:
        lines = sources.sources.get(s.file)
        if lines is None:
            return False, f"file {s.file} not registered"
        for loc in (s.start, s.end):
            if not (1 <= loc.line <= len(lines)):
                return False, f"line {loc.line} outside {s.file} ({len(lines)} lines)"
            if not (0 <= loc.column <= len(lines[loc.line - 1])):
                return False, f"column {loc.column} outside line {loc.line} (length {len(lines[loc.line - 1])})"
        if (s.start.line, s.start.column) > (s.end.line, s.end.column):
            return False, "span start after end"
        if s.file == own_file and not any(lo <= s.start.line and s.end.line <= hi for lo, hi in ranges):
            return False, f"span lines {s.start.line}-{s.end.line} outside every decorated definition {ranges}"
    return True, ""


def rendered(diag, sources) -> tuple[bool, str, str]:
    from guppylang_internals.diagnostic import DiagnosticsRenderer

    try:
        r = DiagnosticsRenderer(sources)
        r.render_diagnostic(diag)
        text = "\n".join(r.buffer)
    except Exception as e:  # noqa: BLE001
        return False, f"{type(e).__name__}@{raise_site(e)}", ""
    try:
        title = diag.rendered_title
    except Exception as e:  # noqa: BLE001
        return False, f"title: {type(e).__name__}", text
    first = r.buffer[0] if r.buffer else ""
    ok = bool(r.buffer) and (title in first if diag.span is not None else True) and "{" + "}" not in first
    return ok, "" if ok else "header does not show the title", text


def _validate_isolated(pkg):
    """Run the validator in a forked child (it aborts the process on some packages).
    Returns "ok", "invalid" (the caller then validates in-process for the message) or the
    number of the signal that killed the child."""
    import os

    pid = os.fork()
    if pid == 0:
        code = 0
        try:
            _set_alarm(0)
            gp.validate(pkg)
        except BaseException:  # noqa: BLE001
            code = 3
        os._exit(code)
    _, status = os.waitpid(pid, 0)
    if os.WIFSIGNALED(status):
        return os.WTERMSIG(status)
    return "ok" if os.WEXITSTATUS(status) == 0 else "invalid"


def lifecycle(defn, own_file, ranges, validate=True, mode="compile", isolate=False) -> tuple[list, dict]:
    """Lifecycle of one definition.  If the job timer expired at any point, whatever was observed is
    unreliable (the timeout exception may have been swallowed, or replaced by a context manager's
    __exit__): the outcome is then a timeout, which the caller repeats alone with a large budget."""
    try:
        events, info = _lifecycle(defn, own_file, ranges, validate, mode, isolate)
    except _Timeout:
        events, info = [], {}
    if _FIRED:
        _set_alarm(0)
        return [ev("check", "timeout", cls="Timeout")], {}
    return events, info


def _lifecycle(defn, own_file, ranges, validate=True, mode="compile", isolate=False) -> tuple[list, dict]:
    from guppylang_internals.engine import DEF_STORE
    from guppylang_internals.error import GuppyError

    info: dict = {}
    try:
        pkg = defn.compile_function() if mode == "compile" else defn.check()
    except GuppyError as e:
        st = stage_of(e)
        loc, why = located(e.error, own_file, ranges, DEF_STORE.sources)
        ren, rwhy, text = rendered(e.error, DEF_STORE.sources)
        info.update(diag=type(e.error).__name__, where=why, render=rwhy, text=text[:1500])
        pre = {"parse": [], "check": ["parse"], "compile": ["parse", "check"]}[st]
        return [ev(s, "ok") for s in pre] + [ev(st, "reject", located=loc, rendered=ren, cls=type(e).__name__,
                                                site=(rwhy if not ren else ""))], info
    except _Timeout:
        _set_alarm(0)
        return [ev("check", "timeout", cls="Timeout")], info
    except RecursionError as e:
        return [ev(stage_of(e), "exc", cls="RecursionError", site=raise_site(e))], info
    except Exception as e:  # noqa: BLE001
        st = stage_of(e)
        info.update(msg=str(e)[:300], tb=traceback.format_exc()[-2500:])
        pre = {"parse": [], "check": ["parse"], "compile": ["parse", "check"]}[st]
        return [ev(s, "ok") for s in pre] + [ev(st, "exc", cls=type(e).__name__, site=raise_site(e))], info
    if mode == "check":
        return [ev("parse", "ok"), ev("check", "ok")], info
    events = [ev("parse", "ok"), ev("check", "ok"), ev("compile", "ok")]
    if validate:
        try:
            verdict = _validate_isolated(pkg) if isolate else "invalid"
            if isinstance(verdict, int):
                info.update(msg=f"hugr validator process killed by signal {verdict} while loading the compiled package")
                events.append(ev("validate", "invalid", cls="HugrInvalid", site=f"validator died (signal {verdict})"))
                return events, info
            if verdict != "ok":
                gp.validate(pkg)  # raises with the validator's message (or passes when not isolated)
            events.append(ev("validate", "ok"))
        except _Timeout:
            _set_alarm(0)
            events.append(ev("validate", "timeout", cls="Timeout"))
        except Exception as e:  # noqa: BLE001
            import runner

            info.update(msg=runner.validation_msg(e))
            events.append(ev("validate", "invalid", cls="HugrInvalid", site=_invalid_site(info["msg"])))
    return events, info


def _invalid_site(msg: str) -> str:
    import re

    m = re.sub(r"Node\(\d+\)|\d+", "#", msg.split("\n")[0])
    return m[:80]


def entries_of(mod):
    """(name, definition, mode): functions are compiled, struct definitions only checked."""
    from guppylang.defs import GuppyDefinition, GuppyFunctionDefinition

    out = []
    for name, v in mod.__dict__.items():
        if not isinstance(v, GuppyDefinition):
            continue
        w = getattr(v, "wrapped", None)
        py = getattr(w, "python_func", None) or getattr(w, "python_class", None)
        if py is None or getattr(py, "__module__", None) != mod.__name__:
            continue
        out.append((name, v, "compile" if isinstance(v, GuppyFunctionDefinition) else "check"))
    return out


def run_program(job: dict) -> dict:
    import guppylang_internals.experimental as ex

    res: dict = {"id": job.get("id"), "traces": [], "names": [], "infos": [], "modes": []}
    prelude = job.get("prelude", diag_seeds.PRELUDE)
    offset = prelude.count("\n")
    mod = None
    prev = ex.EXPERIMENTAL_FEATURES_ENABLED
    old = signal.signal(signal.SIGALRM, _alarm)
    try:
        ex.EXPERIMENTAL_FEATURES_ENABLED = bool(job.get("experimental", False))
        _set_alarm(job.get("timeout", 60))
        try:
            with warnings.catch_warnings():
                warnings.simplefilter("ignore")
                mod = gp.load(job["src"], prelude=prelude)
        except SyntaxError:
            res["status"] = "not_a_case:syntax"
            return res
        except _Timeout:
            res["status"] = "not_a_case:timeout_in_module_body"
            return res
        except BaseException as e:  # noqa: BLE001
            from guppylang_internals.error import GuppyError

            # The module body (decorators, annotations, class bodies) is run by Python, before any
            # checking or compiling: whatever it raises is outside the property (recorded for information).
            res["status"] = f"not_a_case:python:{type(e).__name__}"
            res["module_body"] = f"{type(e).__name__}@{raise_site(e)}"
            return res
        own_file = mod.__file__
        ranges = decorated_ranges(prelude + job["src"])
        ents = entries_of(mod)
        try:  # only the program's own definitions, not the helper definitions of the prelude
            own = {n.name for n in ast.parse(job["src"]).body if isinstance(n, ast.FunctionDef | ast.ClassDef)}
        except SyntaxError:
            own = set()
        ents = [e for e in ents if e[0] in own]
        if job.get("entries"):
            ents = [e for e in ents if e[0] in job["entries"]]
        res["status"] = "case" if ents else "not_a_case:no_definitions"
        for name, d, mode in ents:
            _set_alarm(job.get("timeout", 60))
            events, info = lifecycle(d, own_file, ranges, validate=job.get("validate", True), mode=mode,
                                     isolate=job.get("isolate", True))
            res["traces"].append(events)
            res["names"].append(name)
            res["modes"].append(mode)
            res["infos"].append(info)
        return res
    except _Timeout:
        res.update(status="not_a_case:timeout_in_harness", traces=[], names=[], infos=[], modes=[])
        return res
    except BaseException as e:  # noqa: BLE001
        res.update(status="machinery", error=f"{type(e).__name__}: {e}", tb=traceback.format_exc()[-2000:])
        return res
    finally:
        _set_alarm(0)
        signal.signal(signal.SIGALRM, old)
        ex.EXPERIMENTAL_FEATURES_ENABLED = prev
        if mod is not None:
            gp.unload(mod)


def run_programs(jobs):
    return [run_program(j) for j in jobs]


# ----------------------------------------------------------------------------------------
# crash-proof parallel map: one forked child per chunk; a child that dies (segfault, abort,
# os._exit inside the compiler) loses only its chunk, which is then repeated job by job so
# that the killing program is identified and recorded as an observation ("died").
# ----------------------------------------------------------------------------------------
def _child(conn, jobs):
    try:
        out = [run_program(j) for j in jobs]
        conn.send(out)
    except BaseException as e:  # noqa: BLE001
        try:
            conn.send([{"id": j.get("id"), "status": "machinery", "error": f"child: {type(e).__name__}: {e}",
                        "traces": [], "names": [], "infos": [], "modes": []} for j in jobs])
        except Exception:  # noqa: BLE001
            pass
    finally:
        conn.close()


def map_programs(jobs, procs: int = 16, chunk: int = 30):
    import multiprocessing as mp
    from multiprocessing.connection import wait

    import pool

    pool._init()  # import guppylang + std once; children inherit it by fork
    # warm-up in the parent: lazy imports and pydantic model construction of the serialiser/validator
    run_program({"id": -1, "src": "@guppy\ndef main(q: qubit @ owned, x: int) -> bool:\n    h(q)\n    return measure(q) and x > 0\n",
                 "experimental": False, "isolate": False, "timeout": 600})
    ctx = mp.get_context("fork")
    results: dict = {}
    todo = [list(range(i, min(i + chunk, len(jobs)))) for i in range(0, len(jobs), chunk)]
    todo.reverse()
    running = {}  # conn -> (process, [job indices], deadline)
    import time

    def start(idx):
        parent, child = ctx.Pipe(duplex=False)
        p = ctx.Process(target=_child, args=(child, [jobs[i] for i in idx]), daemon=True)
        p.start()
        child.close()
        # in-process alarms bound every job; this outer deadline only catches a child stuck in native code
        budget = 300 + sum(jobs[i].get("timeout", 60) for i in idx) // 3 + 2 * max(jobs[i].get("timeout", 60) for i in idx)
        running[parent] = (p, idx, time.time() + budget)

    while todo or running:
        while todo and len(running) < procs:
            start(todo.pop())
        now = time.time()
        for conn, (p, idx, deadline) in list(running.items()):
            if now > deadline and p.is_alive():
                p.kill()  # the pipe then reports EOF below
        for conn in wait(list(running), timeout=5):
            p, idx, _ = running.pop(conn)
            try:
                out = conn.recv()
                for i, r in zip(idx, out):
                    results[i] = r
            except (EOFError, OSError):
                p.join(5)
                if len(idx) > 1:
                    for i in idx:  # find the culprit
                        jobs[i] = dict(jobs[i], isolate=True)
                        todo.append([i])
                else:
                    code = p.exitcode
                    results[idx[0]] = {"id": jobs[idx[0]].get("id"), "status": "case", "names": ["<process>"], "modes": ["compile"],
                                       "traces": [[ev("check", "exc", cls="ProcessDied", site=f"exitcode {code}")]],
                                       "infos": [{"msg": f"the interpreter process died with exit code {code} while compiling this program"}]}
            finally:
                conn.close()
                p.join(1)
    return [results[i] for i in range(len(jobs))]
