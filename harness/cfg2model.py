"""Python AST of a function body -> program JSON for spec/CfgBuild.tla, and the real
CFGBuilder's output as a comparable graph."""
from __future__ import annotations

import ast


class Unsupported(Exception):
    pass


def _is_chain(n):
    return isinstance(n, ast.Compare) and len(n.comparators) > 1


def _short_circuit(n):
    return isinstance(n, ast.BoolOp) or _is_chain(n)


def cond(n: ast.expr):
    """BranchBuilder.visit dispatch."""
    if isinstance(n, ast.Constant) and isinstance(n.value, bool):
        return ["T"] if n.value else ["F"]
    if isinstance(n, ast.BoolOp):
        op = "And" if isinstance(n.op, ast.And) else "Or"
        vals = list(n.values)
        out = cond(vals[-1])
        for v in reversed(vals[:-1]):
            out = [op, cond(v), out]
        return out
    if isinstance(n, ast.UnaryOp) and isinstance(n.op, ast.Not):
        return ["Not", cond(n.operand)]
    if _is_chain(n):
        operands = [n.left, *n.comparators]
        cmps = []
        for l, r in zip(operands[:-1], operands[1:]):
            cmps.append(["C", vals_of(l) + vals_of(r)] if not cmps else ["C", vals_of(r)])
        out = cmps[-1]
        for c in reversed(cmps[:-1]):
            out = ["And", c, out]
        return out
    if isinstance(n, ast.IfExp):
        return ["IfExp", cond(n.test), cond(n.body), cond(n.orelse)]
    return ["C", vals_of(n)]


def vals_of(n: ast.AST) -> list:
    """Branching sub-expressions met by ExprBuilder.visit(n), in visiting order."""
    if isinstance(n, ast.IfExp):
        return [["VIf", cond(n.test), vals_of(n.body), vals_of(n.orelse)]]
    if _short_circuit(n):
        return [["VBool", cond(n)]]
    if isinstance(n, ast.Call) and isinstance(n.func, ast.Name) and n.func.id in ("py", "comptime"):
        return []
    if isinstance(n, (ast.ListComp, ast.GeneratorExp, ast.SetComp, ast.DictComp, ast.Lambda)):
        return []
    out = []
    for _, v in ast.iter_fields(n):
        if isinstance(v, list):
            for x in v:
                if isinstance(x, ast.AST):
                    out += vals_of(x)
        elif isinstance(v, ast.AST):
            out += vals_of(v)
    return out


def _target_vals(t):
    out = []
    for sub in ast.walk(t):
        if isinstance(sub, ast.Subscript):
            v = vals_of(sub.slice)
            if v:
                out += v
    return out


def stmts(ss):
    out = []
    for s in ss:
        out += stmt(s)
    return out


def stmt(s) -> list:
    if isinstance(s, (ast.Assign, ast.AugAssign, ast.AnnAssign)):
        v = vals_of(s.value) if s.value is not None else []
        targets = s.targets if isinstance(s, ast.Assign) else [s.target]
        for t in targets:
            v += _target_vals(t)
        return [["S", v]]
    if isinstance(s, ast.Expr):
        return [["S", vals_of(s.value)]]
    if isinstance(s, ast.Pass):
        return [["S", []]]
    if isinstance(s, ast.Return):
        return [["Ret", vals_of(s.value) if s.value is not None else []]]
    if isinstance(s, ast.Break):
        return [["Break"]]
    if isinstance(s, ast.Continue):
        return [["Continue"]]
    if isinstance(s, ast.If):
        return [["If", cond(s.test), stmts(s.body), stmts(s.orelse)]]
    if isinstance(s, ast.While):
        if s.orelse:
            raise Unsupported("while-else")
        return [["While", cond(s.test), stmts(s.body)]]
    if isinstance(s, ast.For):
        if s.orelse:
            raise Unsupported("for-else")
        # template of CFGBuilder.visit_For:  it = make_iter; while True: res = next; if not res.is_some(): ...; break
        #                                    x, it = res.unwrap(); body
        return [["S", vals_of(s.iter)],
                ["While", ["T"], [["S", []], ["If", ["Not", ["C", []]], [["S", []], ["Break"]], []], ["S", []]] + stmts(s.body)]]
    if isinstance(s, ast.FunctionDef):
        return [["S", []]]
    raise Unsupported(type(s).__name__)


def model_program(fdef: ast.FunctionDef) -> dict:
    return {"body": stmts(fdef.body)}


def real_cfg(fdef: ast.FunctionDef, returns_none: bool):
    """Run /repo's CFGBuilder on the function body; returns comparable graph (1-based) or raises."""
    import copy

    import gp  # noqa: F401
    from guppylang_internals.cfg.builder import CFGBuilder

    from guppylang_internals.ast_util import annotate_location

    fdef = copy.deepcopy(fdef)
    annotate_location(fdef, ast.unparse(fdef), "<cfg2model>", 1)
    body = fdef.body
    cfg = CFGBuilder().build(body, returns_none, None)  # globals are only needed for nested defs / modifiers
    idx = {b: i + 1 for i, b in enumerate(cfg.bbs)}
    return {
        "n": len(cfg.bbs),
        "succ": [[idx[s] for s in b.successors] for b in cfg.bbs],
        "dsucc": [[idx[s] for s in b.dummy_successors] for b in cfg.bbs],
        "reach": [1 if b.reachable else 0 for b in cfg.bbs],
        "entry": idx[cfg.entry_bb], "exit": idx[cfg.exit_bb],
    }
