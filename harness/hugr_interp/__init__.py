"""Reference interpreter for the HUGR that /repo's guppylang emits (trusted base).

Executes an in-memory `hugr.Hugr` (the compiler's output object, not a re-parse) and
produces an ordered event log:

    ("result", tag, kind, value)   kind in int/uint/bool/f64/array_*
    ("panic", message, signal) / ("exit", message, signal)
    ("qalloc", q) ("qfree", q) ("measure", q, bit) ("reset", q) ("gate", name, qs, params)
    ("state_result", tag, [amplitudes])

Values:  ints are Python ints reduced to [0, 2^w) (bit patterns; ops decide signedness);
floats are Python floats; HUGR sums are `SumV(tag, vals)` (Bool = SumV(0|1, ()));
`tket.bool` is a Python bool; arrays are `ArrV(cells)` with `EMPTY` marking a borrowed cell;
functions are `FuncV(node, type_args)`; qubits are `Qubit(id)`.

Scheduling: inside a dataflow region nodes run in a topological order of data + order
links. Which ready node runs next is chosen by `sched`:
  "min"  lowest node index first (creation order),
  "max"  highest node index first (adversarial: exposes missing order edges),
  a random.Random  -> uniformly random ready node.
"""
from __future__ import annotations

import math
import random
import struct
from dataclasses import dataclass
from typing import Any, Callable

import hugr.ops as ops
import hugr.tys as tys
import hugr.val as hval
from hugr.hugr.node_port import InPort, Node, OutPort

from .quantum import StateVec

__all__ = ["Interp", "SumV", "ArrV", "FuncV", "Qubit", "Panic", "Exit", "Budget",
           "Unsupported", "InterpError", "EMPTY", "to_signed", "TRUE", "FALSE"]


class InterpError(Exception):
    """Machinery failure or ill-formed HUGR behaviour (not a user-visible panic)."""


class Unsupported(InterpError):
    pass


class Budget(InterpError):
    pass


class Panic(Exception):
    def __init__(self, msg: str, signal: int = 1):
        super().__init__(msg)
        self.msg, self.signal = msg, signal


class Exit(Panic):
    pass


@dataclass(frozen=True)
class SumV:
    tag: int
    vals: tuple

    def __repr__(self) -> str:
        return f"Sum#{self.tag}{self.vals!r}"


TRUE = SumV(1, ())
FALSE = SumV(0, ())


def hbool(b: bool) -> SumV:
    return TRUE if b else FALSE


class _Empty:
    def __repr__(self) -> str:
        return "EMPTY"


EMPTY = _Empty()


@dataclass(frozen=True)
class ArrV:
    cells: tuple

    def __repr__(self) -> str:
        return f"Arr{list(self.cells)!r}"


@dataclass(frozen=True)
class FuncV:
    node: Node
    targs: tuple
    captured: tuple = ()    # values bound by guppylang.partial (a closure / bound method)


@dataclass(frozen=True)
class Qubit:
    id: int


@dataclass(frozen=True)
class ErrV:
    signal: int
    msg: str


@dataclass(frozen=True)
class FutureV:
    v: Any


@dataclass(frozen=True)
class RngV:
    state: int


def to_signed(v: int, bits: int = 64) -> int:
    v &= (1 << bits) - 1
    return v - (1 << bits) if v >> (bits - 1) else v


def _mask(bits: int) -> int:
    return (1 << bits) - 1


# ---------------------------------------------------------------------------------------


class Interp:
    def __init__(
        self,
        h,
        *,
        sched: Any = "min",
        seed: int = 0,
        budget: int = 2_000_000,
        measure_oracle: Callable[[int, float], int] | None = None,
        externs: dict[str, Callable] | None = None,
        max_qubits: int = 12,
    ):
        self.h = h
        self.sched = sched
        self.rng = random.Random(seed)
        self.budget = budget
        self.steps = 0
        self.events: list[tuple] = []
        self.sv = StateVec(self.rng, measure_oracle, max_qubits)
        self.externs = externs or {}
        self._region_cache: dict[Node, tuple] = {}
        self._order_cache: dict = {}
        self.funcs: dict[str, Node] = {}
        for n in h.children(h.module_root):
            op = h[n].op
            if isinstance(op, (ops.FuncDefn, ops.FuncDecl)):
                self.funcs.setdefault(op.f_name, n)

    # -- public ---------------------------------------------------------------------
    def find_func(self, name: str) -> Node:
        if name in self.funcs:
            return self.funcs[name]
        cands = [n for k, n in self.funcs.items() if k.split(".")[-1] == name]
        if len(cands) == 1:
            return cands[0]
        raise InterpError(f"function {name!r} not found (have {sorted(self.funcs)})")

    def run(self, fname: str, args: list | tuple = ()) -> dict:
        """Run a function; returns {"events", "outputs" | "panic" | "exit"}."""
        out: dict = {"events": self.events}
        try:
            out["outputs"] = self.call(self.find_func(fname), list(args), ())
        except Exit as e:
            self.events.append(("exit", e.msg, e.signal))
            out["exit"] = (e.msg, e.signal)
        except Panic as e:
            self.events.append(("panic", e.msg, e.signal))
            out["panic"] = (e.msg, e.signal)
        return out

    def call(self, fnode: Node, args: list, targs: tuple) -> list:
        op = self.h[fnode].op
        if isinstance(op, ops.FuncDecl):
            f = self.externs.get(op.f_name)
            if f is None:
                raise Unsupported(f"call to declared function {op.f_name}")
            return list(f(*args))
        if not isinstance(op, ops.FuncDefn):
            raise InterpError(f"call target {fnode} is {op}")
        if len(targs) != len(op.params):
            raise InterpError(
                f"{op.f_name}: {len(op.params)} type params, {len(targs)} type args"
            )
        return self.eval_region(fnode, args, None, targs)

    # -- regions --------------------------------------------------------------------
    def _region(self, parent: Node):
        r = self._region_cache.get(parent)
        if r is not None:
            return r
        h = self.h
        kids = h.children(parent)
        inp = out = None
        body = []
        for k in kids:
            o = h[k].op
            if isinstance(o, ops.Input):
                inp = k
            elif isinstance(o, ops.Output):
                out = k
            elif isinstance(o, (ops.Const, ops.FuncDefn, ops.FuncDecl, ops.AliasDefn, ops.AliasDecl)):
                continue
            else:
                body.append(k)
        kidset = set(kids)
        deps: dict[Node, set] = {}
        insrc: dict[Node, list] = {}
        for k in body + [out]:
            d = set()
            srcs = []
            nin = h.num_in_ports(k)
            for i in range(nin):
                lp = list(h.linked_ports(InPort(k, i)))
                if not lp:
                    srcs.append(None)
                    continue
                if len(lp) != 1:
                    raise InterpError(f"in-port {k}.{i} has {len(lp)} sources")
                src = lp[0]
                srcs.append(src)
                if src.node in kidset and src.node != inp:
                    if not isinstance(h[src.node].op, (ops.Const, ops.FuncDefn, ops.FuncDecl)):
                        d.add(src.node)
            for o in h.incoming_order_links(k):
                if o in kidset and o != inp:
                    d.add(o)
            deps[k] = d
            insrc[k] = srcs
        r = (inp, out, body, deps, insrc)
        self._region_cache[parent] = r
        return r

    def eval_region(self, parent: Node, inputs: list, env, targs: tuple) -> list:
        """Evaluate a dataflow region (children of `parent`) on `inputs`."""
        h = self.h
        inp, out, body, deps, insrc = self._region(parent)
        if inp is None or out is None:
            raise InterpError(f"region {parent} lacks Input/Output")
        local: dict = {}
        frame = (local, env)
        for i, v in enumerate(inputs):
            local[(inp, i)] = v
        # deterministic policies: the order depends only on the region -> compute once
        if self.sched in ("min", "max"):
            order = self._order_cache.get((parent, self.sched))
            if order is None:
                order = self._static_order(parent, body, deps)
                self._order_cache[(parent, self.sched)] = order
            for k in order:
                args = self._gather(k, insrc[k], frame)
                outs = self.exec_node(k, args, frame, targs)
                for i, v in enumerate(outs):
                    local[(k, i)] = v
            return self._gather(out, insrc[out], frame)
        done: set = set()
        pending = list(body)
        while pending:
            ready = [k for k in pending if deps[k] <= done]
            if not ready:
                raise InterpError(f"cyclic dependencies in region {parent}")
            if self.sched == "min":
                k = min(ready, key=lambda n: n.idx)
            elif self.sched == "max":
                k = max(ready, key=lambda n: n.idx)
            else:
                k = self.sched.choice(sorted(ready, key=lambda n: n.idx))
            pending.remove(k)
            args = self._gather(k, insrc[k], frame)
            outs = self.exec_node(k, args, frame, targs)
            for i, v in enumerate(outs):
                local[(k, i)] = v
            done.add(k)
        return self._gather(out, insrc[out], frame)

    def _static_order(self, parent, body, deps):
        import heapq

        sign = 1 if self.sched == "min" else -1
        indeg = {k: len(deps[k]) for k in body}
        users: dict = {k: [] for k in body}
        for k in body:
            for d in deps[k]:
                if d in users:
                    users[d].append(k)
                else:
                    indeg[k] -= 1  # dependency outside the body (e.g. Input): already available
        heap = [(sign * k.idx, k.idx, k) for k in body if indeg[k] == 0]
        heapq.heapify(heap)
        order = []
        while heap:
            _, _, k = heapq.heappop(heap)
            order.append(k)
            for u in users[k]:
                indeg[u] -= 1
                if indeg[u] == 0:
                    heapq.heappush(heap, (sign * u.idx, u.idx, u))
        if len(order) != len(body):
            raise InterpError(f"cyclic dependencies in region {parent}")
        return order

    def _lookup(self, src: OutPort, frame):
        key = (src.node, src.offset)
        f = frame
        while f is not None:
            loc, f2 = f
            if key in loc:
                return loc[key]
            f = f2
        # static sources
        o = self.h[src.node].op
        if isinstance(o, (ops.FuncDefn, ops.FuncDecl)):
            return FuncV(src.node, ())
        if isinstance(o, ops.Const):
            return self.const(o.val)
        raise InterpError(f"value of {src} not available (non-dominating edge?)")

    def _gather(self, k: Node, srcs: list, frame) -> list:
        op = self.h[k].op
        n = len(srcs)
        # value inputs only: drop trailing static / order ports
        try:
            nval = len(op._inputs()) if hasattr(op, "_inputs") else n
        except Exception:
            nval = n
        if isinstance(op, (ops.Call, ops.LoadFunc, ops.LoadConst)):
            pass
        vals = []
        for i, s in enumerate(srcs):
            if s is None:
                if i < nval and not isinstance(op, (ops.Call, ops.LoadConst, ops.LoadFunc)):
                    # unconnected value port: only legal for zero-use; treat as error
                    kind = self.h.port_kind(InPort(k, i))
                    if isinstance(kind, tys.ValueKind):
                        raise InterpError(f"unconnected value in-port {k}.{i}")
                continue
            kind = self.h.port_kind(InPort(k, i))
            if isinstance(kind, tys.OrderKind):
                continue
            vals.append(self._lookup(s, frame))
        return vals

    # -- node execution ---------------------------------------------------------------
    def exec_node(self, k: Node, args: list, frame, targs: tuple) -> list:
        self.steps += 1
        if self.steps > self.budget:
            raise Budget(f"step budget {self.budget} exceeded")
        h = self.h
        op = h[k].op
        if isinstance(op, ops.LoadConst):
            return [args[0]]
        if isinstance(op, (ops.ExtOp, ops.AsExtOp)) and not isinstance(
            op, (ops.MakeTuple, ops.UnpackTuple, ops.Tag)
        ):
            name = op.op_def().qualified_name()
            targl = op.args if isinstance(op, ops.ExtOp) else op.type_args()
            return self.ext_op(name, [self.resolve(a, targs) for a in targl], args, k)
        if isinstance(op, ops.Custom):
            name = f"{op.extension}.{op.op_name}"
            return self.ext_op(name, [self.resolve(a, targs) for a in op.args], args, k)
        if isinstance(op, ops.MakeTuple):
            return [SumV(0, tuple(args))]
        if isinstance(op, ops.UnpackTuple):
            (t,) = args
            self._want(t, SumV, k)
            return list(t.vals)
        if isinstance(op, ops.Tag):
            return [SumV(op.tag, tuple(args))]
        if isinstance(op, ops.Noop):
            return args
        if isinstance(op, ops.Call):
            fv = args[-1]
            ta = tuple(self.resolve(a, targs) for a in op.type_args)
            return self.call(fv.node, args[:-1], ta)
        if isinstance(op, ops.LoadFunc):
            fv = args[-1]
            ta = tuple(self.resolve(a, targs) for a in op.type_args)
            return [FuncV(fv.node, ta)]
        if isinstance(op, ops.CallIndirect):
            fv = args[0]
            self._want(fv, FuncV, k)
            return self.call(fv.node, list(fv.captured) + args[1:], fv.targs)
        if isinstance(op, ops.Conditional):
            s = args[0]
            self._want(s, SumV, k)
            cases = [c for c in h.children(k) if isinstance(h[c].op, ops.Case)]
            if not 0 <= s.tag < len(cases):
                raise InterpError(f"Conditional {k}: tag {s.tag} of {len(cases)} cases")
            return self.eval_region(cases[s.tag], list(s.vals) + args[1:], frame, targs)
        if isinstance(op, ops.TailLoop):
            nrest = len(op.rest)
            cur = list(args)
            while True:
                outs = self.eval_region(k, cur, frame, targs)
                s = outs[0]
                self._want(s, SumV, k)
                rest = outs[1:]
                if s.tag == 0:
                    cur = list(s.vals) + rest
                elif s.tag == 1:
                    return list(s.vals) + rest
                else:
                    raise InterpError("TailLoop control tag out of range")
                self.steps += 1
                if self.steps > self.budget:
                    raise Budget("loop budget exceeded")
                _ = nrest
        if isinstance(op, ops.DFG):
            return self.eval_region(k, args, frame, targs)
        if isinstance(op, ops.CFG):
            return self.eval_cfg(k, args, frame, targs)
        raise Unsupported(f"node kind {type(op).__name__}: {op}")

    def eval_cfg(self, k: Node, args: list, frame, targs: tuple) -> list:
        h = self.h
        kids = h.children(k)
        blocks = [c for c in kids if isinstance(h[c].op, (ops.DataflowBlock, ops.ExitBlock))]
        if not blocks or not isinstance(h[blocks[0]].op, ops.DataflowBlock):
            raise InterpError("CFG without entry block")
        cur = blocks[0]
        vals = list(args)
        cfg_frame = ({}, frame)
        while True:
            o = h[cur].op
            if isinstance(o, ops.ExitBlock):
                return vals
            outs = self.eval_region(cur, vals, cfg_frame, targs)
            s = outs[0]
            self._want(s, SumV, cur)
            succ = list(h.linked_ports(OutPort(cur, s.tag)))
            if len(succ) != 1:
                raise InterpError(f"block {cur} out-port {s.tag}: {len(succ)} successors")
            cur = succ[0].node
            vals = list(s.vals) + outs[1:]
            self.steps += 1
            if self.steps > self.budget:
                raise Budget("cfg budget exceeded")

    def _want(self, v, ty, k):
        if not isinstance(v, ty):
            raise InterpError(f"node {k} ({self.h[k].op}): expected {ty.__name__}, got {v!r}")

    # -- type args ----------------------------------------------------------------------
    def resolve(self, a, targs: tuple):
        """Resolve a TypeArg under the frame's type arguments to a python-level value."""
        if isinstance(a, tys.VariableArg):
            if a.idx >= len(targs):
                raise InterpError(f"type variable {a.idx} unbound (frame has {len(targs)})")
            return targs[a.idx]
        if isinstance(a, tys.BoundedNatArg):
            return a.n
        if isinstance(a, tys.StringArg):
            return a.value
        if isinstance(a, tys.FloatArg):
            return a.value
        if isinstance(a, tys.TypeTypeArg):
            return self._resolve_ty(a.ty, targs)
        if isinstance(a, (tys.ListArg, tys.TupleArg)):
            return [self.resolve(x, targs) for x in a.elems]
        if isinstance(a, tys.ListConcatArg):
            out = []
            for l in a.lists:
                out.extend(self.resolve(l, targs))
            return out
        return a

    def _resolve_ty(self, t, targs):
        if isinstance(t, tys.Variable):
            if t.idx < len(targs):
                return targs[t.idx]
            raise InterpError(f"type variable {t.idx} unbound")
        return t

    # -- constants ----------------------------------------------------------------------
    def const(self, v):
        if isinstance(v, hval.Sum):
            return SumV(v.tag, tuple(self.const(x) for x in v.vals))
        if isinstance(v, hval.Function):
            raise Unsupported("function constants")
        if isinstance(v, hval.ExtensionValue):
            cn = type(v).__name__
            if cn == "IntVal" or cn == "UnsignedIntVal":
                return v.v & _mask(1 << v.width)
            if cn == "FloatVal":
                return float(v.v)
            if cn == "OpaqueBoolVal":
                return bool(v.v)
            if cn == "StringVal":
                return v.v
            if cn == "ErrorVal":
                return ErrV(v.signal, v.message)
            if cn in ("ArrayVal", "BorrowArrayVal", "StaticArrayVal", "ListVal"):
                return ArrV(tuple(self.const(x) for x in v.v))
            if cn == "ConstWasmModule":
                raise Unsupported("wasm")
            v = v.to_value()
        if isinstance(v, hval.Extension):
            n, p = v.name, v.val
            if n == "ConstInt":
                return int(p["value"]) & _mask(1 << p["log_width"])
            if n == "ConstF64":
                return float(p["value"])
            if n == "ConstBool":
                return bool(p)
            if n == "ConstString":
                return p if isinstance(p, str) else p.get("value", p)
            if n == "ConstError":
                return ErrV(p["signal"], p["message"])
            if n == "ConstUsize":
                return int(p["value"]) if isinstance(p, dict) else int(p)
            if n == "ConstRotation":
                return float(p["half_turns"])
            if n in ("ArrayValue", "BorrowArrayValue", "VArrayValue", "StaticArrayValue", "ListValue"):
                return ArrV(tuple(self.const(x) for x in p["values"]))
            raise Unsupported(f"extension constant {n}")
        raise Unsupported(f"constant {v!r}")

    # -- extension ops ----------------------------------------------------------------
    def ext_op(self, name: str, ta: list, a: list, k: Node) -> list:
        f = OPS.get(name)
        if f is None:
            raise Unsupported(f"extension op {name}")
        return f(self, ta, a, k)

    def emit(self, *ev) -> None:
        self.events.append(tuple(ev))


# =======================================================================================
# Extension op table
# =======================================================================================

OPS: dict[str, Callable] = {}


def op(*names):
    def deco(f):
        for n in names:
            OPS[n] = f
        return f

    return deco


@op("guppylang.partial")
def _partial(I, ta, a, k):
    # (*captured, *rest -> *out), *captured -> (*rest -> *out)
    fv = a[0]
    if not isinstance(fv, FuncV):
        raise InterpError(f"partial of {fv!r}")
    return [FuncV(fv.node, fv.targs, fv.captured + tuple(a[1:]))]


def _bits(ta) -> int:
    return 1 << ta[0]


def _binint(name, fn):
    @op(f"arithmetic.int.{name}")
    def _f(I, ta, a, k, fn=fn):
        b = _bits(ta)
        return [fn(a[0], a[1], b) & _mask(b)]


def _cmpint(name, fn, signed):
    @op(f"arithmetic.int.{name}")
    def _f(I, ta, a, k, fn=fn, signed=signed):
        b = _bits(ta)
        x, y = (to_signed(a[0], b), to_signed(a[1], b)) if signed else (a[0], a[1])
        return [hbool(fn(x, y))]


_binint("iadd", lambda x, y, b: x + y)
_binint("isub", lambda x, y, b: x - y)
_binint("imul", lambda x, y, b: x * y)
_binint("iand", lambda x, y, b: x & y)
_binint("ior", lambda x, y, b: x | y)
_binint("ixor", lambda x, y, b: x ^ y)
_binint("ishl", lambda x, y, b: (x << y) if y < b else 0)
_binint("ishr", lambda x, y, b: (x >> y) if y < b else 0)
_binint("irotl", lambda x, y, b: ((x << (y % b)) | (x >> (b - y % b))) if y % b else x)
_binint("irotr", lambda x, y, b: ((x >> (y % b)) | (x << (b - y % b))) if y % b else x)
_binint("imax_u", lambda x, y, b: max(x, y))
_binint("imin_u", lambda x, y, b: min(x, y))
_binint("imax_s", lambda x, y, b: max(to_signed(x, b), to_signed(y, b)))
_binint("imin_s", lambda x, y, b: min(to_signed(x, b), to_signed(y, b)))
_binint("ipow", lambda x, y, b: pow(x, y, 1 << b))
for _n, _f in [("ilt", lambda x, y: x < y), ("ile", lambda x, y: x <= y),
               ("igt", lambda x, y: x > y), ("ige", lambda x, y: x >= y)]:
    _cmpint(_n + "_s", _f, True)
    _cmpint(_n + "_u", _f, False)
_cmpint("ieq", lambda x, y: x == y, False)
_cmpint("ine", lambda x, y: x != y, False)


@op("arithmetic.int.ineg")
def _ineg(I, ta, a, k):
    return [(-a[0]) & _mask(_bits(ta))]


@op("arithmetic.int.inot")
def _inot(I, ta, a, k):
    return [(~a[0]) & _mask(_bits(ta))]


@op("arithmetic.int.iabs")
def _iabs(I, ta, a, k):
    b = _bits(ta)
    return [abs(to_signed(a[0], b)) & _mask(b)]


@op("arithmetic.int.is_to_u", "arithmetic.int.iu_to_s")
def _isu(I, ta, a, k):
    return [a[0]]


def _divmod_u(n, m):
    return n // m, n % m


def _divmod_s(n, m, b):
    """HUGR idivmod_s: signed n, *unsigned* m; q*m + r = n, 0 <= r < m."""
    ns = to_signed(n, b)
    q, r = ns // m, ns % m
    return q, r


def _div_fail(I, what):
    raise Panic(f"{what}: division by zero", 1)


@op("arithmetic.int.idivmod_u")
def _idivmod_u(I, ta, a, k):
    if a[1] == 0:
        _div_fail(I, "idivmod_u")
    q, r = _divmod_u(a[0], a[1])
    return [q, r]


@op("arithmetic.int.idiv_u")
def _idiv_u(I, ta, a, k):
    if a[1] == 0:
        _div_fail(I, "idiv_u")
    return [a[0] // a[1]]


@op("arithmetic.int.imod_u")
def _imod_u(I, ta, a, k):
    if a[1] == 0:
        _div_fail(I, "imod_u")
    return [a[0] % a[1]]


@op("arithmetic.int.idivmod_s")
def _idivmod_s(I, ta, a, k):
    b = _bits(ta)
    if a[1] == 0:
        _div_fail(I, "idivmod_s")
    q, r = _divmod_s(a[0], a[1], b)
    return [q & _mask(b), r & _mask(b)]


@op("arithmetic.int.idiv_s")
def _idiv_s(I, ta, a, k):
    return [_idivmod_s(I, ta, a, k)[0]]


@op("arithmetic.int.imod_s")
def _imod_s(I, ta, a, k):
    return [_idivmod_s(I, ta, a, k)[1]]


def _checked(fn):
    def g(I, ta, a, k):
        if a[1] == 0:
            return [SumV(0, (ErrV(1, "division by zero"),))]
        r = fn(I, ta, a, k)
        if len(r) == 2:
            return [SumV(1, (SumV(0, tuple(r)),))]
        return [SumV(1, tuple(r))]

    return g


OPS["arithmetic.int.idivmod_checked_u"] = _checked(_idivmod_u)
OPS["arithmetic.int.idivmod_checked_s"] = _checked(_idivmod_s)
OPS["arithmetic.int.idiv_checked_u"] = _checked(_idiv_u)
OPS["arithmetic.int.idiv_checked_s"] = _checked(_idiv_s)
OPS["arithmetic.int.imod_checked_u"] = _checked(_imod_u)
OPS["arithmetic.int.imod_checked_s"] = _checked(_imod_s)


@op("arithmetic.int.iwiden_u")
def _iwiden_u(I, ta, a, k):
    return [a[0]]


@op("arithmetic.int.iwiden_s")
def _iwiden_s(I, ta, a, k):
    return [to_signed(a[0], 1 << ta[0]) & _mask(1 << ta[1])]


@op("arithmetic.int.inarrow_u")
def _inarrow_u(I, ta, a, k):
    b = 1 << ta[1]
    if a[0] >> b:
        return [SumV(0, (ErrV(2, "narrow failed"),))]
    return [SumV(1, (a[0],))]


@op("arithmetic.int.inarrow_s")
def _inarrow_s(I, ta, a, k):
    b = 1 << ta[1]
    s = to_signed(a[0], 1 << ta[0])
    if not -(1 << (b - 1)) <= s < (1 << (b - 1)):
        return [SumV(0, (ErrV(2, "narrow failed"),))]
    return [SumV(1, (s & _mask(b),))]


# -- conversions -----------------------------------------------------------------------
@op("arithmetic.conversions.convert_s")
def _conv_s(I, ta, a, k):
    return [float(to_signed(a[0], _bits(ta)))]


@op("arithmetic.conversions.convert_u")
def _conv_u(I, ta, a, k):
    return [float(a[0])]


def _trunc(signed):
    def g(I, ta, a, k):
        b = _bits(ta)
        x = a[0]
        if math.isnan(x) or math.isinf(x):
            return [SumV(0, (ErrV(2, "float out of range"),))]
        t = math.trunc(x)
        lo, hi = (-(1 << (b - 1)), (1 << (b - 1)) - 1) if signed else (0, (1 << b) - 1)
        if not lo <= t <= hi:
            return [SumV(0, (ErrV(2, "float out of range"),))]
        return [SumV(1, (t & _mask(b),))]

    return g


OPS["arithmetic.conversions.trunc_s"] = _trunc(True)
OPS["arithmetic.conversions.trunc_u"] = _trunc(False)


@op("arithmetic.conversions.itousize", "arithmetic.conversions.ifromusize")
def _usize(I, ta, a, k):
    return [a[0] & _mask(64)]


@op("arithmetic.conversions.ifrombool")
def _ifrombool(I, ta, a, k):
    return [a[0].tag]


@op("arithmetic.conversions.itobool")
def _itobool(I, ta, a, k):
    return [hbool(a[0] & 1 == 1)]


@op("arithmetic.conversions.bytecast_float64_to_int64")
def _f2i(I, ta, a, k):
    return [struct.unpack("<Q", struct.pack("<d", a[0]))[0]]


@op("arithmetic.conversions.bytecast_int64_to_float64")
def _i2f(I, ta, a, k):
    return [struct.unpack("<d", struct.pack("<Q", a[0] & _mask(64)))[0]]


@op("arithmetic.conversions.itostring_s")
def _itos_s(I, ta, a, k):
    return [str(to_signed(a[0], _bits(ta)))]


@op("arithmetic.conversions.itostring_u")
def _itos_u(I, ta, a, k):
    return [str(a[0])]


# -- floats ------------------------------------------------------------------------------
def _fdiv(x, y):
    if y == 0.0:
        if x == 0.0 or math.isnan(x):
            return math.nan
        return math.copysign(math.inf, x) * math.copysign(1.0, y)
    return x / y


def _fpow(x, y):
    try:
        r = math.pow(x, y)
    except OverflowError:
        return math.inf
    except ValueError:
        return math.nan
    return r


def _fbin(name, fn):
    @op(f"arithmetic.float.{name}")
    def _f(I, ta, a, k, fn=fn):
        return [fn(a[0], a[1])]


def _fcmp(name, fn):
    @op(f"arithmetic.float.{name}")
    def _f(I, ta, a, k, fn=fn):
        return [hbool(fn(a[0], a[1]))]


def _fovf(fn):
    def g(x, y):
        try:
            return fn(x, y)
        except OverflowError:
            return math.inf
    return g


_fbin("fadd", lambda x, y: x + y)
_fbin("fsub", lambda x, y: x - y)
_fbin("fmul", lambda x, y: x * y)
_fbin("fdiv", _fdiv)
_fbin("fpow", _fpow)
_fbin("fmax", lambda x, y: max(x, y))
_fbin("fmin", lambda x, y: min(x, y))
_fcmp("feq", lambda x, y: x == y)
_fcmp("fne", lambda x, y: x != y)
_fcmp("flt", lambda x, y: x < y)
_fcmp("fle", lambda x, y: x <= y)
_fcmp("fgt", lambda x, y: x > y)
_fcmp("fge", lambda x, y: x >= y)


def _funary(name, fn):
    @op(f"arithmetic.float.{name}")
    def _f(I, ta, a, k, fn=fn):
        return [fn(a[0])]


def _safe(fn):
    def g(x):
        if math.isnan(x) or math.isinf(x):
            return x
        return float(fn(x))
    return g


_funary("fneg", lambda x: -x)
_funary("fabs", abs)
_funary("ffloor", _safe(math.floor))
_funary("fceil", _safe(math.ceil))
_funary("fround", _safe(lambda x: math.floor(x + 0.5) if x >= 0 else -math.floor(-x + 0.5)))
_funary("froundeven", _safe(round))


@op("arithmetic.float.ftostring")
def _ftos(I, ta, a, k):
    return [repr(a[0])]


# -- logic / tket.bool -------------------------------------------------------------------
@op("logic.And")
def _land(I, ta, a, k):
    return [hbool(a[0].tag == 1 and a[1].tag == 1)]


@op("logic.Or")
def _lor(I, ta, a, k):
    return [hbool(a[0].tag == 1 or a[1].tag == 1)]


@op("logic.Xor")
def _lxor(I, ta, a, k):
    return [hbool(a[0].tag != a[1].tag)]


@op("logic.Eq")
def _leq(I, ta, a, k):
    return [hbool(a[0].tag == a[1].tag)]


@op("logic.Not")
def _lnot(I, ta, a, k):
    return [hbool(a[0].tag == 0)]


def _isb(I, v, k):
    if not isinstance(v, bool):
        raise InterpError(f"node {k}: expected tket.bool, got {v!r}")
    return v


@op("tket.bool.read")
def _bread(I, ta, a, k):
    return [hbool(_isb(I, a[0], k))]


@op("tket.bool.make_opaque")
def _bmk(I, ta, a, k):
    I._want(a[0], SumV, k)
    return [a[0].tag == 1]


@op("tket.bool.and")
def _band(I, ta, a, k):
    return [_isb(I, a[0], k) and _isb(I, a[1], k)]


@op("tket.bool.or")
def _bor(I, ta, a, k):
    return [_isb(I, a[0], k) or _isb(I, a[1], k)]


@op("tket.bool.xor")
def _bxor(I, ta, a, k):
    return [_isb(I, a[0], k) != _isb(I, a[1], k)]


@op("tket.bool.eq")
def _beq(I, ta, a, k):
    return [_isb(I, a[0], k) == _isb(I, a[1], k)]


@op("tket.bool.not")
def _bnot(I, ta, a, k):
    return [not _isb(I, a[0], k)]


# -- prelude -----------------------------------------------------------------------------
@op("prelude.MakeError")
def _mkerr(I, ta, a, k):
    return [ErrV(a[0], a[1])]


@op("prelude.panic")
def _panic(I, ta, a, k):
    raise Panic(a[0].msg, a[0].signal)


@op("prelude.exit")
def _exit(I, ta, a, k):
    raise Exit(a[0].msg, a[0].signal)


@op("prelude.load_nat")
def _load_nat(I, ta, a, k):
    n = ta[0]
    if not isinstance(n, int):
        raise InterpError(f"load_nat of non-nat {n!r}")
    return [n]


@op("prelude.Noop", "prelude.Barrier")
def _noop(I, ta, a, k):
    return list(a)


@op("prelude.print")
def _print(I, ta, a, k):
    I.emit("print", a[0])
    return []


@op("prelude.MakeTuple")
def _mktuple(I, ta, a, k):
    return [SumV(0, tuple(a))]


@op("prelude.UnpackTuple")
def _untuple(I, ta, a, k):
    return list(a[0].vals)


# -- arrays ------------------------------------------------------------------------------
def _arr(I, v, k) -> ArrV:
    if not isinstance(v, ArrV):
        raise InterpError(f"node {k}: expected array, got {v!r}")
    return v


for _p in ("collections.array", "collections.borrow_arr", "collections.value_array"):

    @op(f"{_p}.new_array")
    def _new_array(I, ta, a, k):
        return [ArrV(tuple(a))]

    @op(f"{_p}.unpack")
    def _unpack(I, ta, a, k):
        arr = _arr(I, a[0], k)
        if any(c is EMPTY for c in arr.cells):
            raise Panic("unpack of array with borrowed element", 1)
        return list(arr.cells)

    @op(f"{_p}.get")
    def _aget(I, ta, a, k):
        arr, i = _arr(I, a[0], k), a[1]
        if not 0 <= i < len(arr.cells):
            return [SumV(0, ()), arr]
        if arr.cells[i] is EMPTY:
            raise Panic("array element already borrowed", 1)
        return [SumV(1, (arr.cells[i],)), arr]

    @op(f"{_p}.set")
    def _aset(I, ta, a, k):
        arr, i, v = _arr(I, a[0], k), a[1], a[2]
        if not 0 <= i < len(arr.cells):
            return [SumV(0, (v, arr))]
        if arr.cells[i] is EMPTY:
            raise Panic("array element already borrowed", 1)
        old = arr.cells[i]
        cells = list(arr.cells)
        cells[i] = v
        return [SumV(1, (old, ArrV(tuple(cells))))]

    @op(f"{_p}.swap")
    def _aswap(I, ta, a, k):
        arr, i, j = _arr(I, a[0], k), a[1], a[2]
        n = len(arr.cells)
        if not (0 <= i < n and 0 <= j < n):
            return [SumV(0, (arr,))]
        cells = list(arr.cells)
        cells[i], cells[j] = cells[j], cells[i]
        return [SumV(1, (ArrV(tuple(cells)),))]

    @op(f"{_p}.pop_left")
    def _apopl(I, ta, a, k):
        arr = _arr(I, a[0], k)
        if not arr.cells:
            return [SumV(0, ())]
        if arr.cells[0] is EMPTY:
            raise Panic("array element already borrowed", 1)
        return [SumV(1, (arr.cells[0], ArrV(arr.cells[1:])))]

    @op(f"{_p}.pop_right")
    def _apopr(I, ta, a, k):
        arr = _arr(I, a[0], k)
        if not arr.cells:
            return [SumV(0, ())]
        if arr.cells[-1] is EMPTY:
            raise Panic("array element already borrowed", 1)
        return [SumV(1, (arr.cells[-1], ArrV(arr.cells[:-1])))]

    @op(f"{_p}.clone")
    def _aclone(I, ta, a, k):
        arr = _arr(I, a[0], k)
        if any(c is EMPTY for c in arr.cells):
            raise Panic("clone of array with borrowed element", 1)
        return [arr, arr]

    @op(f"{_p}.discard")
    def _adiscard(I, ta, a, k):
        _arr(I, a[0], k)
        return []

    @op(f"{_p}.discard_empty")
    def _adiscard_e(I, ta, a, k):
        if _arr(I, a[0], k).cells:
            raise InterpError("discard_empty of non-empty array")
        return []

    @op(f"{_p}.repeat")
    def _arepeat(I, ta, a, k):
        n = ta[0]
        f = a[0]
        cells = []
        for _ in range(n):
            (v,) = I.call(f.node, [], f.targs)
            cells.append(v)
        return [ArrV(tuple(cells))]

    @op(f"{_p}.scan")
    def _ascan(I, ta, a, k):
        arr, f, acc = _arr(I, a[0], k), a[1], list(a[2:])
        out = []
        for c in arr.cells:
            if c is EMPTY:
                raise Panic("scan over borrowed element", 1)
            r = I.call(f.node, [c] + acc, f.targs)
            out.append(r[0])
            acc = r[1:]
        return [ArrV(tuple(out))] + acc


@op("collections.borrow_arr.borrow")
def _bborrow(I, ta, a, k):
    arr, i = _arr(I, a[0], k), a[1]
    if not 0 <= i < len(arr.cells):
        raise Panic("borrow: index out of bounds", 1)
    if arr.cells[i] is EMPTY:
        raise Panic("borrow: element already borrowed", 1)
    cells = list(arr.cells)
    v = cells[i]
    cells[i] = EMPTY
    return [ArrV(tuple(cells)), v]


@op("collections.borrow_arr.return")
def _breturn(I, ta, a, k):
    arr, i, v = _arr(I, a[0], k), a[1], a[2]
    if not 0 <= i < len(arr.cells):
        raise Panic("return: index out of bounds", 1)
    if arr.cells[i] is not EMPTY:
        raise Panic("return: element not borrowed", 1)
    cells = list(arr.cells)
    cells[i] = v
    return [ArrV(tuple(cells))]


@op("collections.borrow_arr.is_borrowed")
def _bisb(I, ta, a, k):
    arr, i = _arr(I, a[0], k), a[1]
    if not 0 <= i < len(arr.cells):
        raise Panic("is_borrowed: index out of bounds", 1)
    return [arr, hbool(arr.cells[i] is EMPTY)]


@op("collections.borrow_arr.new_all_borrowed")
def _bnewall(I, ta, a, k):
    return [ArrV(tuple(EMPTY for _ in range(ta[0])))]


@op("collections.borrow_arr.discard_all_borrowed")
def _bdiscall(I, ta, a, k):
    arr = _arr(I, a[0], k)
    if any(c is not EMPTY for c in arr.cells):
        raise Panic("discard_all_borrowed: some elements not borrowed", 1)
    return []


@op("collections.borrow_arr.from_array", "collections.borrow_arr.to_array")
def _bconv(I, ta, a, k):
    arr = _arr(I, a[0], k)
    if any(c is EMPTY for c in arr.cells):
        raise Panic("to_array: some elements are borrowed", 1)
    return [arr]


@op("collections.static_array.get")
def _sget(I, ta, a, k):
    arr, i = _arr(I, a[0], k), a[1]
    if not 0 <= i < len(arr.cells):
        return [SumV(0, ())]
    return [SumV(1, (arr.cells[i],))]


@op("collections.static_array.len")
def _slen(I, ta, a, k):
    return [len(_arr(I, a[0], k).cells)]


# -- lists ---------------------------------------------------------------------------------
@op("collections.list.get")
def _lget(I, ta, a, k):
    arr, i = _arr(I, a[0], k), a[1]
    if not 0 <= i < len(arr.cells):
        return [SumV(0, ())]
    return [SumV(1, (arr.cells[i],))]


@op("collections.list.push")
def _lpush(I, ta, a, k):
    return [ArrV(_arr(I, a[0], k).cells + (a[1],))]


@op("collections.list.pop")
def _lpop(I, ta, a, k):
    arr = _arr(I, a[0], k)
    if not arr.cells:
        return [arr, SumV(0, ())]
    return [ArrV(arr.cells[:-1]), SumV(1, (arr.cells[-1],))]


@op("collections.list.length")
def _llen(I, ta, a, k):
    arr = _arr(I, a[0], k)
    return [arr, len(arr.cells)]


@op("collections.list.set")
def _lset(I, ta, a, k):
    arr, i, v = _arr(I, a[0], k), a[1], a[2]
    if not 0 <= i < len(arr.cells):
        return [arr, SumV(0, (v,))]
    cells = list(arr.cells)
    old, cells[i] = cells[i], v
    return [ArrV(tuple(cells)), SumV(1, (old,))]


@op("collections.list.insert")
def _lins(I, ta, a, k):
    arr, i, v = _arr(I, a[0], k), a[1], a[2]
    if not 0 <= i <= len(arr.cells):
        return [arr, SumV(0, (v,))]
    cells = list(arr.cells)
    cells.insert(i, v)
    return [ArrV(tuple(cells)), SumV(1, ())]


# -- results -----------------------------------------------------------------------------
@op("tket.result.result_int")
def _res_int(I, ta, a, k):
    I.emit("result", ta[0], "int", to_signed(a[0], 1 << ta[1]))
    return []


@op("tket.result.result_uint")
def _res_uint(I, ta, a, k):
    I.emit("result", ta[0], "uint", a[0] & _mask(1 << ta[1]))
    return []


@op("tket.result.result_bool")
def _res_bool(I, ta, a, k):
    I._want(a[0], SumV, k)
    I.emit("result", ta[0], "bool", a[0].tag == 1)
    return []


@op("tket.result.result_f64")
def _res_f64(I, ta, a, k):
    I.emit("result", ta[0], "f64", a[0])
    return []


@op("tket.result.result_array_int")
def _res_aint(I, ta, a, k):
    I.emit("result", ta[0], "array_int", [to_signed(c, 1 << ta[2]) for c in _arr(I, a[0], k).cells])
    return []


@op("tket.result.result_array_uint")
def _res_auint(I, ta, a, k):
    I.emit("result", ta[0], "array_uint", [c & _mask(1 << ta[2]) for c in _arr(I, a[0], k).cells])
    return []


@op("tket.result.result_array_bool")
def _res_abool(I, ta, a, k):
    I.emit("result", ta[0], "array_bool", [c.tag == 1 for c in _arr(I, a[0], k).cells])
    return []


@op("tket.result.result_array_f64")
def _res_af64(I, ta, a, k):
    I.emit("result", ta[0], "array_f64", list(_arr(I, a[0], k).cells))
    return []


# -- guppy / futures ---------------------------------------------------------------------
@op("tket.guppy.drop")
def _drop(I, ta, a, k):
    I.emit("drop", _shape(a[0]))
    return []


def _shape(v):
    if isinstance(v, Qubit):
        raise InterpError("drop of a qubit")
    if isinstance(v, ArrV):
        return ["arr"] + [_shape(c) for c in v.cells if c is not EMPTY]
    if isinstance(v, SumV):
        return ["sum", v.tag] + [_shape(c) for c in v.vals]
    return type(v).__name__


@op("tket.futures.Read")
def _fread(I, ta, a, k):
    return [a[0].v]


@op("tket.futures.Dup")
def _fdup(I, ta, a, k):
    return [a[0], a[0]]


@op("tket.futures.Free")
def _ffree(I, ta, a, k):
    return []


# -- rotation ----------------------------------------------------------------------------
@op("tket.rotation.from_halfturns_unchecked")
def _rot_u(I, ta, a, k):
    return [float(a[0])]


@op("tket.rotation.from_halfturns")
def _rot_c(I, ta, a, k):
    if math.isnan(a[0]) or math.isinf(a[0]):
        return [SumV(0, ())]
    return [SumV(1, (float(a[0]),))]


@op("tket.rotation.to_halfturns")
def _rot_t(I, ta, a, k):
    return [float(a[0])]


@op("tket.rotation.radd")
def _rot_add(I, ta, a, k):
    return [a[0] + a[1]]


# -- quantum -----------------------------------------------------------------------------
def _q(I, v, k) -> int:
    if not isinstance(v, Qubit):
        raise InterpError(f"node {k}: expected qubit, got {v!r}")
    return v.id


@op("tket.quantum.QAlloc")
def _qalloc(I, ta, a, k):
    q = I.sv.alloc()
    I.emit("qalloc", q)
    return [Qubit(q)]


@op("tket.quantum.TryQAlloc", "tket.qsystem.TryQAlloc")
def _tryqalloc(I, ta, a, k):
    if I.sv.n_live() >= I.sv.max_qubits:
        return [SumV(0, ())]
    q = I.sv.alloc()
    I.emit("qalloc", q)
    return [SumV(1, (Qubit(q),))]


@op("tket.quantum.QFree", "tket.qsystem.QFree")
def _qfree(I, ta, a, k):
    q = _q(I, a[0], k)
    I.sv.free(q)
    I.emit("qfree", q)
    return []


@op("tket.quantum.Reset", "tket.qsystem.Reset")
def _qreset(I, ta, a, k):
    q = _q(I, a[0], k)
    I.sv.reset(q)
    I.emit("reset", q)
    return [a[0]]


@op("tket.quantum.MeasureFree", "tket.qsystem.Measure")
def _qmeasfree(I, ta, a, k):
    q = _q(I, a[0], k)
    b = I.sv.measure(q)
    I.sv.free(q)
    I.emit("measure", q, b)
    I.emit("qfree", q)
    return [bool(b)]


@op("tket.quantum.Measure")
def _qmeas(I, ta, a, k):
    q = _q(I, a[0], k)
    b = I.sv.measure(q)
    I.emit("measure", q, b)
    return [a[0], hbool(bool(b))]


@op("tket.qsystem.MeasureReset")
def _qmeasreset(I, ta, a, k):
    q = _q(I, a[0], k)
    b = I.sv.measure(q)
    I.sv.reset(q)
    I.emit("measure", q, b)
    I.emit("reset", q)
    return [a[0], bool(b)]


@op("tket.qsystem.LazyMeasure")
def _qlazy(I, ta, a, k):
    q = _q(I, a[0], k)
    b = I.sv.measure(q)
    I.sv.free(q)
    I.emit("measure", q, b)
    I.emit("qfree", q)
    return [FutureV(hbool(bool(b)))]


@op("tket.qsystem.LazyMeasureReset")
def _qlazyreset(I, ta, a, k):
    q = _q(I, a[0], k)
    b = I.sv.measure(q)
    I.sv.reset(q)
    I.emit("measure", q, b)
    I.emit("reset", q)
    return [a[0], FutureV(hbool(bool(b)))]


@op("tket.qsystem.LazyMeasureLeaked")
def _qlazyleak(I, ta, a, k):
    q = _q(I, a[0], k)
    b = I.sv.measure(q)
    I.sv.free(q)
    I.emit("measure", q, b)
    I.emit("qfree", q)
    return [FutureV(int(b))]


def _gate(name, nq, nparams=0, qsys=False):
    full = ("tket.qsystem." if qsys else "tket.quantum.") + name

    @op(full)
    def _g(I, ta, a, k, name=name, nq=nq, nparams=nparams, qsys=qsys):
        qs = [_q(I, v, k) for v in a[:nq]]
        if len(set(qs)) != nq:
            raise InterpError(f"gate {name} on repeated qubit {qs}")
        ps = [float(x) for x in a[nq:nq + nparams]]
        I.sv.gate(("qsystem." if qsys else "") + name, qs, ps)
        I.emit("gate", ("qsystem." if qsys else "") + name, tuple(qs), tuple(ps))
        return list(a[:nq])


for _n in ["H", "X", "Y", "Z", "S", "Sdg", "T", "Tdg", "V", "Vdg"]:
    _gate(_n, 1)
for _n in ["CX", "CY", "CZ", "CH"]:
    _gate(_n, 2)
_gate("Toffoli", 3)
for _n in ["Rx", "Ry", "Rz"]:
    _gate(_n, 1, 1)
_gate("CRz", 2, 1)
_gate("PhasedX", 1, 2, qsys=True)
_gate("Rz", 1, 1, qsys=True)
_gate("ZZPhase", 2, 1, qsys=True)


@op("tket.qsystem.RuntimeBarrier")
def _rtbarrier(I, ta, a, k):
    return list(a)


@op("tket.debug.StateResult")
def _state_result(I, ta, a, k):
    arr = _arr(I, a[0], k)
    qs = [_q(I, c, k) for c in arr.cells]
    I.emit("state_result", ta[0], tuple(qs), I.sv.state_of(qs))
    return [arr]


# -- qsystem utils / random ------------------------------------------------------------------
@op("tket.qsystem.utils.GetCurrentShot")
def _shot(I, ta, a, k):
    return [0]


@op("tket.qsystem.random.NewRNGContext")
def _rng_new(I, ta, a, k):
    return [SumV(1, (RngV(a[0]),))]


@op("tket.qsystem.random.DeleteRNGContext")
def _rng_del(I, ta, a, k):
    return []


def _lcg(s):
    return (s * 6364136223846793005 + 1442695040888963407) & _mask(64)


@op("tket.qsystem.random.RandomInt")
def _rng_int(I, ta, a, k):
    s = _lcg(a[0].state)
    return [(s >> 32) & _mask(32), RngV(s)]


@op("tket.qsystem.random.RandomIntBounded")
def _rng_intb(I, ta, a, k):
    s = _lcg(a[0].state)
    return [((s >> 32) % max(a[1], 1)) & _mask(32), RngV(s)]


@op("tket.qsystem.random.RandomFloat")
def _rng_float(I, ta, a, k):
    s = _lcg(a[0].state)
    return [(s >> 11) / float(1 << 53), RngV(s)]


@op("tket.qsystem.random.RandomAdvance")
def _rng_adv(I, ta, a, k):
    return [RngV(_lcg(a[0].state ^ a[1]))]
