"""Dense statevector simulator for the reference HUGR interpreter.

Gate matrices follow the definitions of the `tket.quantum` / `tket.qsystem` extension ops
(tket conventions: Rz(a) = diag(e^{-i pi a/2}, e^{i pi a/2}) with `a` in half-turns, etc.).
"""
from __future__ import annotations

import cmath
import math

import numpy as np

SQ2 = 1 / math.sqrt(2)


def _rx(a):
    c, s = math.cos(math.pi * a / 2), math.sin(math.pi * a / 2)
    return np.array([[c, -1j * s], [-1j * s, c]], dtype=complex)


def _ry(a):
    c, s = math.cos(math.pi * a / 2), math.sin(math.pi * a / 2)
    return np.array([[c, -s], [s, c]], dtype=complex)


def _rz(a):
    return np.array(
        [[cmath.exp(-1j * math.pi * a / 2), 0], [0, cmath.exp(1j * math.pi * a / 2)]],
        dtype=complex,
    )


def _ctrl(u):
    n = u.shape[0]
    m = np.eye(2 * n, dtype=complex)
    m[n:, n:] = u
    return m


H = np.array([[SQ2, SQ2], [SQ2, -SQ2]], dtype=complex)
X = np.array([[0, 1], [1, 0]], dtype=complex)
Y = np.array([[0, -1j], [1j, 0]], dtype=complex)
Z = np.array([[1, 0], [0, -1]], dtype=complex)
S = np.array([[1, 0], [0, 1j]], dtype=complex)
T = np.array([[1, 0], [0, cmath.exp(1j * math.pi / 4)]], dtype=complex)
V = np.array([[1, -1j], [-1j, 1]], dtype=complex) * SQ2  # = Rx(1/2)


def _phased_x(a, b):
    # tket PhasedX(a, b) = Rz(b) Rx(a) Rz(-b)   (angles in half-turns)
    return _rz(b) @ _rx(a) @ _rz(-b)


def _zzphase(a):
    e0, e1 = cmath.exp(-1j * math.pi * a / 2), cmath.exp(1j * math.pi * a / 2)
    return np.diag([e0, e1, e1, e0]).astype(complex)


def matrix(name: str, params: list[float]) -> np.ndarray:
    """Unitary of a gate; first listed qubit is the most significant index."""
    if name == "H":
        return H
    if name == "X":
        return X
    if name == "Y":
        return Y
    if name == "Z":
        return Z
    if name == "S":
        return S
    if name == "Sdg":
        return S.conj().T
    if name == "T":
        return T
    if name == "Tdg":
        return T.conj().T
    if name == "V":
        return V
    if name == "Vdg":
        return V.conj().T
    if name == "CX":
        return _ctrl(X)
    if name == "CY":
        return _ctrl(Y)
    if name == "CZ":
        return _ctrl(Z)
    if name == "CH":
        return _ctrl(H)
    if name == "Toffoli":
        return _ctrl(_ctrl(X))
    if name == "Rx":
        return _rx(params[0])
    if name == "Ry":
        return _ry(params[0])
    if name == "Rz":
        return _rz(params[0])
    if name == "CRz":
        return _ctrl(_rz(params[0]))
    # qsystem ops take angles in radians (float64), not half-turns
    if name == "qsystem.PhasedX":
        return _phased_x(params[0] / math.pi, params[1] / math.pi)
    if name == "qsystem.Rz":
        return _rz(params[0] / math.pi)
    if name == "qsystem.ZZPhase":
        return _zzphase(params[0] / math.pi)
    raise KeyError(name)


class StateVec:
    def __init__(self, rng, oracle=None, max_qubits: int = 12):
        self.rng = rng
        self.oracle = oracle
        self.max_qubits = max_qubits
        self.state = np.array([1.0 + 0j])
        self.order: list[int] = []  # qubit ids; order[0] is the most significant axis
        self.next_id = 0

    def n_live(self) -> int:
        return len(self.order)

    def alloc(self) -> int:
        if len(self.order) >= self.max_qubits:
            from . import Panic

            raise Panic("out of qubits", 1)
        q = self.next_id
        self.next_id += 1
        self.state = np.kron(self.state, np.array([1.0 + 0j, 0]))
        self.order.append(q)
        return q

    def _axis(self, q: int) -> int:
        try:
            return self.order.index(q)
        except ValueError:
            from . import InterpError

            raise InterpError(f"use of dead qubit {q}") from None

    def gate(self, name: str, qs: list[int], params: list[float]) -> None:
        u = matrix(name, params)
        n = len(self.order)
        axes = [self._axis(q) for q in qs]
        k = len(qs)
        t = self.state.reshape([2] * n)
        u = u.reshape([2] * (2 * k))
        t = np.tensordot(u, t, axes=(list(range(k, 2 * k)), axes))
        t = np.moveaxis(t, list(range(k)), axes)
        self.state = t.reshape(-1)

    def prob1(self, q: int) -> float:
        n = len(self.order)
        ax = self._axis(q)
        t = self.state.reshape([2] * n)
        p1 = float(np.sum(np.abs(np.take(t, 1, axis=ax)) ** 2))
        return min(max(p1, 0.0), 1.0)

    def measure(self, q: int) -> int:
        p1 = self.prob1(q)
        if self.oracle is not None:
            b = int(self.oracle(q, p1))
        elif p1 < 1e-12:
            b = 0
        elif p1 > 1 - 1e-12:
            b = 1
        else:
            b = 1 if self.rng.random() < p1 else 0
        p = p1 if b else 1 - p1
        if p < 1e-12:
            from . import InterpError

            raise InterpError(f"measurement oracle chose impossible outcome {b} (p={p})")
        n = len(self.order)
        ax = self._axis(q)
        t = self.state.reshape([2] * n).copy()
        idx = [slice(None)] * n
        idx[ax] = 1 - b
        t[tuple(idx)] = 0
        self.state = t.reshape(-1) / math.sqrt(p)
        return b

    def reset(self, q: int) -> None:
        b = self.measure(q)
        if b:
            self.gate("X", [q], [])

    def free(self, q: int) -> None:
        """Trace out q (measuring it first if it is entangled / not classical)."""
        p1 = self.prob1(q)
        if 1e-12 < p1 < 1 - 1e-12:
            self.measure(q)
            p1 = self.prob1(q)
        b = 1 if p1 > 0.5 else 0
        n = len(self.order)
        ax = self._axis(q)
        t = self.state.reshape([2] * n)
        self.state = np.take(t, b, axis=ax).reshape(-1)
        self.order.pop(ax)

    def state_of(self, qs: list[int]) -> list[complex] | None:
        """Statevector on `qs` (first = most significant) if the rest is in a product state
        with them; the full state permuted so that qs come first otherwise (flagged)."""
        n = len(self.order)
        axes = [self._axis(q) for q in qs]
        rest = [i for i in range(n) if i not in axes]
        t = self.state.reshape([2] * n).transpose(axes + rest).reshape(2 ** len(qs), -1)
        # product state <=> rank 1
        u, s, vh = np.linalg.svd(t, full_matrices=False)
        if s.size > 1 and s[1] > 1e-9:
            return None
        v = u[:, 0] * s[0]
        # fix the phase convention using vh (so that result is u s (vh[0][j]) for max j)
        j = int(np.argmax(np.abs(vh[0])))
        ph = vh[0, j] / abs(vh[0, j])
        return [complex(x) for x in (v * ph)]
