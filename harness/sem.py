"""Shared engine for the checks decided by spec/GuppySem.tla (C03, C05, C07, C21, C32, ...).

case = {"id", "src", "entry", "args": [[encoded spec values]...], "experimental": bool,
        "impl_src"/"impl_entry" (optional: different text compiled by /repo, e.g. the comptime variant)}
evaluate() runs CPython (oracle guard), compiles from /repo and executes on the reference
interpreter under several node schedules, then lets TLC validate every recorded event stream
(py and impl) against the GuppySem machine. Returns one result per case.
"""
from __future__ import annotations

import json
import os

import lib
import pool
import py2json
import pyref
import runner


def _impl_job(case):
    args = [[pyref.dec_arg(a) for a in al] for al in case["args"]]
    job = {"id": case["id"], "src": case.get("impl_src", case["src"]), "entry": case.get("impl_entry", case["entry"]),
           "args": args, "scheds": case.get("scheds", ["min", "max", "rand:1"]), "validate": case.get("validate", True),
           "experimental": case.get("experimental", False), "seed": case.get("seed", 0),
           "budget": case.get("budget", 200_000)}
    if "prelude" in case:
        job["prelude"] = case["prelude"]
    return runner.run_job(job)


def _py_job(case):
    try:
        prog = py2json.convert(case["src"])
    except py2json.Unrepresentable as e:
        return {"skip": f"unrepresentable: {e}"}
    except SyntaxError as e:
        return {"skip": f"syntax: {e}"}
    runs = [pyref.run_py(case["src"], case["entry"], al) for al in case["args"]]
    return {"prog": prog, "runs": runs, "mustreject": sorted(set(py2json.contains_mustreject(prog)))}


def evaluate(ctx, cases, tag="sem", chunk=1500):
    """Returns list of results aligned with cases:
    {"id", "impl": run_job result, "py": [...], "verdicts": [{"args", "py": v, "impl": {sched: v}}], "skip": reason?}"""
    ctx.log(f"{tag}: {len(cases)} cases: CPython + py2json")
    pys = pool.map_jobs(_py_job, cases, chunksize=16)
    ctx.log(f"{tag}: compiling with /repo and executing on the interpreter")
    impls = pool.map_jobs(_impl_job, cases, chunksize=8)
    results = []
    progs, runs, index = [], [], []  # index[i] = (case idx, arg idx, kind, sched)
    for ci, (case, py, impl) in enumerate(zip(cases, pys, impls)):
        res = {"id": case["id"], "impl": impl, "py": py, "verdicts": []}
        results.append(res)
        if "skip" in py:
            res["skip"] = py["skip"]
            continue
        if impl["status"] == "machinery":
            raise lib.Machinery(f"runner failed on case {case['id']}: {impl['error']}")
        p = {"funcs": py["prog"]["funcs"], "methods": {c: m for c, m in py["prog"].get("methods", {}).items() if m} or {"": {}},
             "entry": case["entry"]}
        progs.append(p)
        pi = len(progs)
        for ai, (al, pr) in enumerate(zip(case["args"], py["runs"])):
            v = {"args": al, "py": None, "impl": {}}
            res["verdicts"].append(v)
            if "skip" in pr:
                v["py"] = {"skip": pr["skip"]}
                continue
            runs.append({"prog": pi, "args": al, "trace": pr["trace"], "end": pr["end"], "ret": pr["ret"], "kind": "py"})
            index.append((ci, ai, "py", None))
            if impl["status"] != "ok":
                continue
            for ir in impl["runs"]:
                if ir["args"] != [pyref.dec_arg(a) for a in al] and json.dumps(ir["args"]) != json.dumps([pyref.dec_arg(a) for a in al]):
                    continue
                sched = ir["sched"]
                if ir["end"] in ("budget", "unsupported", "interp_error"):
                    v["impl"][sched] = {"interp": ir["end"], "msg": ir.get("msg", "")}
                    continue
                runs.append({"prog": pi, "args": al, "trace": pyref.impl_events(ir["events"]),
                             "end": "return" if ir["end"] == "return" else "panic",
                             "ret": pyref.impl_ret(ir.get("outputs", [])) if ir["end"] == "return" and pr["ret"] != ["skip"] else ["skip"],
                             "kind": "impl"})
                index.append((ci, ai, "impl", sched))
    ctx.log(f"{tag}: {len(progs)} programs, {len(runs)} event streams -> TLC")
    # TLC in chunks (keeps JSON files and JVM heap moderate)
    verdict_of = {}
    for start in range(0, len(runs), chunk):
        part = runs[start:start + chunk]
        used = sorted({r["prog"] for r in part})
        remap = {p: i + 1 for i, p in enumerate(used)}
        inp = {"progs": [progs[p - 1] for p in used], "runs": [dict(r, prog=remap[r["prog"]]) for r in part]}
        path = os.path.join(ctx.workdir, f"{tag}_{start}.json")
        with open(path, "w") as f:
            json.dump(inp, f)
        r = ctx.tlc("GuppySem_Trace", env={"VERIF_IN": path}, timeout=3000)
        if not r.ok:
            raise lib.Machinery(f"GuppySem_Trace failed:\n{r.error}")
        for p in r.printed:
            gi = start + p["run"] - 1
            if "accepted" in p:
                verdict_of.setdefault(gi, {"ok": True, "events": p["accepted"]})
            elif "stuck" in p:
                verdict_of[gi] = {"stuck": p["stuck"], "at": p["at"]}
            elif "bad" in p and gi not in verdict_of:
                verdict_of[gi] = {"bad": p["bad"], "at": p["at"], "got": p["got"], "want": p["want"]}
        os.remove(path)
    for gi, (ci, ai, kind, sched) in enumerate(index):
        v = verdict_of.get(gi, {"bad": "no verdict (machine did not terminate?)"})
        if kind == "py":
            results[ci]["verdicts"][ai]["py"] = v
        else:
            results[ci]["verdicts"][ai]["impl"][sched] = v
    return results


def classify(res):
    """Summarise one result:  'skip' | 'rejected' | 'crash' | 'invalid' | 'spec-vs-python' | 'unmodelled' |
    'mustreject-accepted' | 'mismatch' | 'interp' | 'ok'  plus details."""
    if "skip" in res:
        return "skip", res["skip"]
    st = res["impl"]["status"]
    for v in res["verdicts"]:   # a run whose values leave the model's integer range is skipped, not judged
        p = v["py"]
        if p and "stuck" in p and isinstance(p["stuck"], list) and len(p["stuck"]) > 1 and p["stuck"][1] == ["overflow"]:
            v["py"] = {"skip": "value outside the model's integer range"}
    pyv = [v["py"] for v in res["verdicts"]]
    if all(p is None or "skip" in p for p in pyv):
        if st == "ok" and res["py"].get("mustreject"):
            return "mustreject-accepted", res["py"]["mustreject"]
        return ("skip", "python oracle unavailable") if st == "ok" else (st, res["impl"].get("error"))
    for p in pyv:
        if p and "stuck" in p:
            why = p["stuck"]
            if isinstance(why, list) and len(why) > 1 and why[1] == ["overflow"]:
                return "skip", "value outside the model's integer range"
            if isinstance(why, list) and len(why) > 1 and isinstance(why[1], list) and why[1] and why[1][0] == "MustReject":
                return ("mustreject-accepted", why[1][1:]) if st == "ok" else (st, res["impl"].get("error"))
            return ("unmodelled", why) if st == "ok" else (st, res["impl"].get("error"))
        if p and "bad" in p:
            return "spec-vs-python", p
    if st != "ok":
        return st, res["impl"].get("error")
    for v in res["verdicts"]:
        if v["py"] is None or "skip" in v["py"]:
            continue
        for sched, iv in v["impl"].items():
            if "interp" in iv:
                return "interp", {"sched": sched, **iv}
            if "ok" not in iv:
                return "mismatch", {"args": v["args"], "sched": sched, **iv}
    return "ok", None
