"""Numeric values for the NumOps / BitVec64 specs (C04, C16, C17).

* JSON encoding of 64-bit words, floats and wide integers as 16-bit limbs
  (TLC integers are 32 bit; JSON numbers >= 2^31 would be mangled).
* anchor operand sets, seeded random operands.
* `py_expected`: CPython evaluation of one (form, a, b) - the independent oracle the
  TLA+ operators are cross-checked against BEFORE the implementation is consulted.
  It evaluates Python's own operators on Python ints / floats (exactness of float
  results is decided with `fractions.Fraction`).  A disagreement between this oracle
  and the spec is a Machinery failure, never a violation.
"""
from __future__ import annotations

import math
import random
from fractions import Fraction

W = 64
M = 1 << W
MAXI = (1 << 63) - 1
MINI = -(1 << 63)
MAXU = M - 1
FP = 53
RANK = {"nat": 1, "int": 2, "float": 3}
CMPS = ("==", "!=", "<", "<=", ">", ">=")


class OracleError(Exception):
    pass


# ---------------------------------------------------------------------------------------
# encoding
# ---------------------------------------------------------------------------------------
def limbs(x: int, n: int = 4) -> list[int]:
    """little-endian 16-bit limbs of x mod 2^(16 n)"""
    x &= (1 << (16 * n)) - 1
    return [(x >> (16 * i)) & 0xFFFF for i in range(n)]


def unlimbs(ls) -> int:
    return sum(int(d) << (16 * i) for i, d in enumerate(ls))


def to_signed(p: int) -> int:
    p &= MAXU
    return p - M if p >> 63 else p


def enc_word(p: int) -> dict:
    return {"w": limbs(p), "s": 0, "e": 0, "x": 0}


def enc_float(f: float) -> dict:
    if math.isnan(f) or math.isinf(f):
        return {"w": [0, 0, 0, 0], "s": 0, "e": 0, "x": 1}
    if f == 0:
        return {"w": [0, 0, 0, 0], "s": 0, "e": 0, "x": 0}
    n, d = abs(f).as_integer_ratio()
    e = -(d.bit_length() - 1)
    t = (n & -n).bit_length() - 1
    n >>= t
    e += t
    assert n < (1 << 53)
    return {"w": limbs(n), "s": 1 if f < 0 else 0, "e": e, "x": 0}


def enc(ty: str, v) -> dict:
    """Python value of Guppy type `ty` -> spec value record. nat/int: any int (taken mod 2^64)."""
    if ty == "float":
        return enc_float(float(v))
    if ty == "bool":
        return enc_word(1 if v else 0)
    if ty == "none":
        return enc_word(0)
    return enc_word(int(v))


def dec(ty: str, r: dict):
    """spec value record -> Python value (int unsigned/signed by type, Fraction for float)"""
    if ty == "float":
        if r["x"]:
            return math.nan
        m = unlimbs(r["w"])
        v = Fraction(m) * (Fraction(2) ** int(r["e"]))
        return -v if r["s"] else v
    p = unlimbs(r["w"])
    if ty == "int":
        return to_signed(p)
    if ty == "bool":
        return bool(p)
    return p


def enc_wide(z: int, n: int = 6) -> dict:
    """Python integer -> [neg, mag] with an n-limb magnitude (C17 literals)"""
    assert abs(z) < (1 << (16 * n))
    return {"neg": z < 0, "mag": limbs(abs(z), n)}


# ---------------------------------------------------------------------------------------
# operand sets
# ---------------------------------------------------------------------------------------
INT_CORE = [0, 1, -1, 3, -7, MAXI, MINI, (1 << 32) + 1]
INT_ANCHORS = INT_CORE + [2, -2, -3, 7, MINI + 1, MAXI - 1, (1 << 32) - 1, -(1 << 32), -(1 << 62), (1 << 62) + 5,
                          63, 64, 65, -64, 1 << 53, (1 << 53) + 1, -(1 << 31), 10, 255, -256, 1000003]
NAT_CORE = [0, 1, 3, 7, MAXU, 1 << 63, MAXI, (1 << 32) + 1]
NAT_ANCHORS = NAT_CORE + [2, (1 << 63) + 1, MAXU - 1, (1 << 32) - 1, 1 << 62, 63, 64, 65, 1 << 53, (1 << 53) + 1,
                          10, 255, 1000003, (1 << 64) - (1 << 32), 5, 12]
FLOAT_CORE = [0.0, 1.0, -1.0, 2.5, -2.75, 7.0, -0.5, 3.0]
FLOAT_ANCHORS = FLOAT_CORE + [0.5, -7.0, 0.125, 1024.0, 4095.0, -1365.25, 2.0, -3.0, 6.0, 0.75, -0.015625, 100.0,
                              63.0, 64.0, -4.0, 10.0]
# large exactly representable floats: only for conversions
FLOAT_BIG = [2.0 ** 53, 2.0 ** 62, 2.0 ** 63, -(2.0 ** 63), 2.0 ** 64, 2.0 ** 63 - 1024.0, -(2.0 ** 63) - 2048.0,
             2.0 ** 64 - 2048.0, 1.5 * 2.0 ** 52, -(2.0 ** 53) + 1.0, 2.0 ** 31 + 0.5, -(2.0 ** 40) - 0.25]
SHIFT_COUNTS = list(range(64))
EXPONENTS = [0, 1, 2, 3, 4, 5, 7, 8, 16, 31, 32, 63, 64, 65]


def anchors(ty: str, core: bool = False) -> list:
    if ty == "int":
        return INT_CORE if core else INT_ANCHORS
    if ty == "nat":
        return NAT_CORE if core else NAT_ANCHORS
    if ty == "float":
        return FLOAT_CORE if core else FLOAT_ANCHORS
    if ty == "bool":
        return [False, True]
    raise ValueError(ty)


def rand_value(ty: str, rng: random.Random):
    if ty == "int":
        k = rng.choice([8, 16, 31, 33, 62, 64, 64, 64])
        return to_signed(rng.getrandbits(k) * rng.choice([1, -1]))
    if ty == "nat":
        k = rng.choice([8, 16, 31, 33, 63, 64, 64, 64])
        return rng.getrandbits(k)
    if ty == "float":
        # dyadic rationals with <= 12-bit numerators and exponents in [-6, 6]
        return math.ldexp(rng.randrange(-4095, 4096), rng.randrange(-6, 7))
    if ty == "bool":
        return rng.random() < 0.5
    raise ValueError(ty)


# ---------------------------------------------------------------------------------------
# CPython oracle
# ---------------------------------------------------------------------------------------
def wrap(ty: str, n: int) -> int:
    n %= M
    return n - M if (ty == "int" and n >= M // 2) else n


def frac_repr(fr: Fraction) -> bool:
    """exactly representable as an IEEE double (exponent range not relevant here)"""
    if fr == 0:
        return True
    d = fr.denominator
    if d & (d - 1):
        return False
    n = abs(fr.numerator)
    n >>= (n & -n).bit_length() - 1
    return n.bit_length() <= FP


def dyadic(fr: Fraction) -> tuple[int, int]:
    """|fr| = m * 2^e with m odd (0, 0 for zero)"""
    if fr == 0:
        return 0, 0
    n, d = abs(fr.numerator), fr.denominator
    assert d & (d - 1) == 0
    t = (n & -n).bit_length() - 1
    return n >> t, t - (d.bit_length() - 1)


def true_value(ty: str, v):
    """the Python value an operand of Guppy type ty stands for"""
    if ty == "nat":
        return int(v) % M
    if ty == "int":
        return to_signed(int(v))
    if ty == "bool":
        return bool(v)
    return float(v)


def op_type(form: dict) -> str:
    """type at which the operation happens: join of the operand types in nat < int < float;
    a non-negative int literal on the right of a nat is typed nat"""
    ta, tb = form["ta"], form["tb"]
    if tb == "none":
        return ta
    if form.get("blit") and ta == "nat" and tb == "int" and not form.get("lneg"):
        return "nat"
    return ta if RANK[ta] >= RANK[tb] else tb


def _cmp(op, x, y):
    return {"==": x == y, "!=": x != y, "<": x < y, "<=": x <= y, ">": x > y, ">=": x >= y}[op]


UNDEF = (False, "none", None)


def _float_result(native: float, exact: Fraction):
    """required iff the exact result is representable; then CPython's own result must be it"""
    if not frac_repr(exact):
        return UNDEF
    if math.isnan(native) or math.isinf(native) or Fraction(native) != exact:
        raise OracleError(f"CPython float result {native!r} differs from the exact representable result {exact}")
    return (True, "float", exact)


def py_expected(form: dict, a, b=None):
    """-> (defined, result type, value); value: int (wrapped), bool, or Fraction for floats."""
    op, ta, tb = form["op"], form["ta"], form["tb"]
    if ta == "bool":
        p = bool(a)
        q = bool(b) if tb != "none" else None
        if op in ("&", "|", "^", "==", "!="):
            return True, "bool", {"&": p & q, "|": p | q, "^": p ^ q, "==": p == q, "!=": p != q}[op]
        if op == "not":
            return True, "bool", not p
        if op == "bool":
            return True, "bool", bool(p)
        if op in ("int", "nat"):
            return True, op, int(p)
        return UNDEF
    J = op_type(form)
    x = true_value(ta, a)
    y = true_value(tb, b) if tb != "none" else None
    if J != "float":
        # implicit nat -> int widening is value preserving only below 2^63
        co = not (ta == "nat" and J == "int" and x > MAXI) and not (tb == "nat" and J == "int" and y is not None and y > MAXI)
        if tb == "none":
            if op == "neg":
                return (True, J, wrap(J, -x)) if J == "int" else UNDEF
            if op == "pos":
                return True, J, wrap(J, +x)
            if op == "inv":
                return True, J, wrap(J, ~x)
            if op == "abs":
                return True, J, wrap(J, abs(x))
            if op == "not":
                return True, "bool", not x
            if op == "bool":
                return True, "bool", bool(x)
            if op == "int":
                return True, "int", wrap("int", int(x))
            if op == "nat":
                return True, "nat", wrap("nat", int(x))
            if op in ("float", "co_float"):
                return True, "float", Fraction(float(x))  # CPython's int -> float is correctly rounded
            if op == "floor":
                return True, J, wrap(J, math.floor(x))
            if op == "ceil":
                return True, J, wrap(J, math.ceil(x))
            if op == "trunc":
                return True, J, wrap(J, math.trunc(x))
            if op == "co_nat":
                return (True, "nat", x) if J == "nat" else UNDEF
            if op == "co_int":
                return (True, "int", x) if x <= MAXI else UNDEF
            return UNDEF
        if op in ("+", "-", "*", "&", "|", "^"):
            r = {"+": x + y, "-": x - y, "*": x * y, "&": x & y, "|": x | y, "^": x ^ y}[op]
            return True, J, wrap(J, r)
        if op == "<<":
            return (True, J, wrap(J, x << y)) if 0 <= y < W else UNDEF
        if op == ">>":
            return (True, J, wrap(J, x >> y)) if (0 <= y < W and co) else UNDEF
        if op in ("**", "pow"):
            # exponent as seen at J: a nat exponent >= 2^63 is not representable at int
            if J == "int" and (y < 0 or y > MAXI):
                return UNDEF
            return True, J, wrap(J, pow(x, y, M))  # == (x ** y) mod 2^64, computable for huge y
        if op in ("//", "divmod0", "%", "divmod1"):
            if y == 0 or not co:
                return UNDEF
            q, r = divmod(x, y)
            assert q == x // y and r == x % y
            return True, J, wrap(J, q if op in ("//", "divmod0") else r)
        if op == "/":
            if y == 0 or not co:
                return UNDEF
            if not (frac_repr(Fraction(x)) and frac_repr(Fraction(y))):
                return UNDEF
            return _float_result(x / y, Fraction(x, y))
        if op in CMPS:
            return (True, "bool", _cmp(op, x, y)) if co else UNDEF
        return UNDEF
    # ---- float ----
    if tb == "none":
        fx = Fraction(x)
        if op == "neg":
            return True, "float", Fraction(-x)
        if op == "pos":
            return True, "float", Fraction(+x)
        if op == "abs":
            return True, "float", Fraction(abs(x))
        if op == "not":
            return True, "bool", not x
        if op == "bool":
            return True, "bool", bool(x)
        if op == "int":
            t = int(x)
            return (True, "int", t) if MINI <= t <= MAXI else UNDEF
        if op == "nat":
            t = int(x)
            return (True, "nat", t) if 0 <= t <= MAXU else UNDEF
        if op in ("float", "co_float"):
            return True, "float", Fraction(float(x))
        if op == "floor":
            return True, "float", Fraction(math.floor(x))
        if op == "ceil":
            return True, "float", Fraction(math.ceil(x))
        return UNDEF
    # implicit int -> float widening must be exact
    if not (frac_repr(Fraction(x)) and frac_repr(Fraction(y))):
        return UNDEF
    fx, fy = Fraction(x), Fraction(y)
    nx, ny = float(x), float(y)
    if op == "+":
        return _float_result(nx + ny, fx + fy)
    if op == "-":
        return _float_result(nx - ny, fx - fy)
    if op == "*":
        return _float_result(nx * ny, fx * fy)
    if op == "/":
        return _float_result(nx / ny, fx / fy) if fy != 0 else UNDEF
    if op in ("//", "divmod0", "%", "divmod1"):
        if fy == 0:
            return UNDEF
        # numerator of x/y after aligning both operands to their smaller exponent
        (mx, ex), (my, ey) = dyadic(fx), dyadic(fy)
        if mx and (mx << (ex - min(ex, ey))).bit_length() > FP:
            return UNDEF
        q = math.floor(fx / fy)
        nq, nr = divmod(nx, ny)
        assert nq == nx // ny and (nr == nx % ny)
        return _float_result(nq, Fraction(q)) if op in ("//", "divmod0") else _float_result(nr, fx - q * fy)
    if op in ("**", "pow"):
        if fy.denominator != 1 or not (0 <= fy < 128):
            return UNDEF
        n = int(fy)
        exact = fx ** n
        if not frac_repr(exact):
            return UNDEF
        return _float_result(nx ** ny, exact)
    if op in CMPS:
        return True, "bool", _cmp(op, nx, ny)
    return UNDEF


def enc_expected(t) -> dict:
    d, ty, v = t
    if not d:
        return {"def": 0, "ty": "none", "v": enc_word(0)}
    if ty == "float":
        f = float(v)
        assert Fraction(f) == v
        return {"def": 1, "ty": ty, "v": enc_float(f)}
    return {"def": 1, "ty": ty, "v": enc(ty, v)}
