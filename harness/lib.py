"""Shared machinery: TLC runner, evidence writer, known findings, check driver."""
from __future__ import annotations

import argparse
import hashlib
import json
import os
import re
import shutil
import subprocess
import sys
import tempfile
import time
from dataclasses import dataclass, field
from typing import Any, Callable

VERIF = os.path.dirname(os.path.dirname(os.path.abspath(__file__)))
SPEC = os.path.join(VERIF, "spec")
EVIDENCE = os.path.join(VERIF, "evidence")
REPLAYS = os.path.join(VERIF, "replays")
KNOWN = os.path.join(VERIF, "known_findings.jsonl")
REPO = os.environ.get("VERIF_REPO", "/repo")
NCPU = os.cpu_count() or 4
# default TLC worker count: several checks/TLC runs are usually in flight at once
AUTO_WORKERS = int(os.environ.get("VERIF_TLC_WORKERS", "0")) or max(2, min(8, NCPU // 2))


class Machinery(Exception):
    """The checking machinery itself failed (exit 2) - never a VIOLATION."""


# ---------------------------------------------------------------------------------------
# TLC
# ---------------------------------------------------------------------------------------
@dataclass
class TLCResult:
    ok: bool
    generated: int
    distinct: int
    depth: int
    out: str
    printed: list = field(default_factory=list)  # decoded PrintT(ToJson(..)) payloads
    error: str = ""
    wall: float = 0.0
    coverage: dict = field(default_factory=dict)  # action name -> (distinct, total)


_RE_STATES = re.compile(r"(\d+) states generated, (\d+) distinct states found")
_RE_DEPTH = re.compile(r"depth of the complete state graph search is (\d+)")
_RE_COV = re.compile(r"^<(\w+) line \d+, col \d+ to line \d+, col \d+ of module (\w+)>: (\d+):(\d+)", re.M)


def tlc(
    module: str,
    cfg: str | None = None,
    *,
    env: dict | None = None,
    workers: int | str = "auto",
    workdir: str,
    simulate: str | None = None,
    depth: int | None = None,
    seed: int | None = None,
    timeout: int = 3600,
    coverage: bool = False,
    heap: str = "8g",
    extra: list | None = None,
    spec_dir: str = SPEC,
    allow_error: bool = False,
    dfs: bool = False,
) -> TLCResult:
    """Run TLC on spec/<module>.tla with spec/<cfg>. PrintT(ToJson(x)) lines are decoded."""
    cfg = cfg or module + ".cfg"
    meta = tempfile.mkdtemp(prefix="tlcmeta_", dir=workdir)
    jopts = f"-Xmx{heap} -XX:+UseParallelGC -XX:ParallelGCThreads=4 -Djava.io.tmpdir={meta}"   # TLC's tlc-<n> scratch too
    if dfs:
        jopts += " -Dtlc2.tool.queue.IStateQueue=StateDeque"
    cmd = [
        "java", *jopts.split(), "-cp",
        "/opt/veriftools/tla/tla2tools.jar:/opt/veriftools/tla/CommunityModules-deps.jar",
        "tlc2.TLC",
    ]
    # prefer the wrapper on PATH (knows the classpath); fall back to explicit java
    wrapper = shutil.which("tlc")
    if wrapper:
        cmd = [wrapper]
    cmd += ["-workers", str(AUTO_WORKERS if workers == "auto" else workers), "-metadir", meta,
            "-noGenerateSpecTE", "-config", os.path.join(spec_dir, cfg)]
    if simulate is not None:
        cmd += ["-simulate", simulate]
    if depth is not None:
        cmd += ["-depth", str(depth)]
    if seed is not None:
        cmd += ["-seed", str(seed)]
    if coverage:
        cmd += ["-coverage", "1"]
    cmd += extra or []
    cmd += [os.path.join(spec_dir, module + ".tla")]
    e = dict(os.environ)
    e["JAVA_TOOL_OPTIONS"] = (e.get("JAVA_TOOL_OPTIONS", "") + " " + jopts).strip()
    for k, v in (env or {}).items():
        e[k] = str(v)
    t0 = time.time()
    try:
        p = subprocess.run(cmd, env=e, cwd=workdir, capture_output=True, text=True, timeout=timeout)
        out = p.stdout + p.stderr
        rc = p.returncode
    except subprocess.TimeoutExpired as ex:
        subprocess.run(["pkill", "-f", meta], check=False)
        raise Machinery(f"TLC timeout after {timeout}s on {module}/{cfg}") from ex
    finally:
        shutil.rmtree(meta, ignore_errors=True)
    wall = time.time() - t0
    printed = []
    for line in out.splitlines():
        if line.startswith('"{') or line.startswith('"['):
            try:
                printed.append(json.loads(json.loads(line)))
            except Exception:
                pass
    m = None
    for m in _RE_STATES.finditer(out):
        pass
    gen, dist = (int(m.group(1)), int(m.group(2))) if m else (0, 0)
    d = _RE_DEPTH.search(out)
    cov = {}
    if coverage:
        for mm in _RE_COV.finditer(out):
            cov[mm.group(1)] = (int(mm.group(3)), int(mm.group(4)))
    err = ""
    ok = rc == 0 and "Error:" not in out
    if not ok:
        i = out.find("Error:")
        err = out[i:i + 3000] if i >= 0 else out[-3000:]
        if not allow_error and ("Parsing or semantic analysis failed" in out or "ConfigFileException" in out
                                or "TLC threw an unexpected exception" in out or gen == 0 and simulate is None):
            raise Machinery(f"TLC failed on {module}/{cfg}:\n{err or out[-3000:]}")
    return TLCResult(ok, gen, dist, int(d.group(1)) if d else 0, out, printed, err, wall, cov)


def sany(module: str, spec_dir: str = SPEC) -> None:
    p = subprocess.run(["tla-sany", os.path.join(spec_dir, module + ".tla")], capture_output=True, text=True, cwd=spec_dir)
    if p.returncode != 0 or "Semantic errors" in p.stdout or "Parse Error" in p.stdout or "Fatal errors" in p.stdout:
        raise Machinery(f"SANY rejected {module}:\n{p.stdout[-2000:]}{p.stderr[-500:]}")


# ---------------------------------------------------------------------------------------
# known findings
# ---------------------------------------------------------------------------------------
def load_known() -> list[dict]:
    out = []
    if os.path.exists(KNOWN):
        for l in open(KNOWN):
            l = l.strip()
            if l and not l.startswith("#"):
                out.append(json.loads(l))
    return out


def sha(x: Any) -> str:
    return hashlib.sha256(json.dumps(x, sort_keys=True, default=str).encode()).hexdigest()[:16]


# ---------------------------------------------------------------------------------------
# check driver
# ---------------------------------------------------------------------------------------
@dataclass
class Violation:
    key: str  # stable identifier of the failing input / history / call site
    what: str
    replay: Any = None  # JSON-serialisable reproduction data


class Ctx:
    def __init__(self, pid: str, tier: str, seed: int, workdir: str, args):
        self.pid, self.tier, self.seed, self.workdir, self.args = pid, tier, seed, workdir, args
        self.violations: list[Violation] = []
        self.coverage: dict = {}
        self.assumptions: list[str] = []
        self.level = "model_checking"
        self.states = 0
        self.transitions = 0
        self.t0 = time.time()

    @property
    def quick(self) -> bool:
        return self.tier == "quick"

    def pick(self, quick, thorough):
        return quick if self.quick else thorough

    def tlc(self, module: str, cfg: str | None = None, **kw) -> TLCResult:
        kw.setdefault("workdir", self.workdir)
        r = tlc(module, cfg, **kw)
        self.states += r.distinct
        self.transitions += r.generated
        self.coverage.setdefault("tlc_runs", []).append(
            {"module": module, "cfg": cfg or module + ".cfg", "generated": r.generated,
             "distinct": r.distinct, "depth": r.depth, "wall_s": round(r.wall, 2), "ok": r.ok}
        )
        return r

    def violation(self, key: str, what: str, replay: Any = None) -> None:
        self.violations.append(Violation(key, what, replay))

    def log(self, *a) -> None:
        print(f"[{self.pid} {time.time() - self.t0:6.1f}s]", *a, file=sys.stderr, flush=True)


def write_evidence(ctx: Ctx, nviol: int) -> None:
    evdir = EVIDENCE
    if os.path.realpath(REPO) != "/repo":   # a run against a scratch tree must not overwrite /repo's evidence
        evdir = os.path.join(VERIF, "work", "evidence_other_tree")
    os.makedirs(evdir, exist_ok=True)
    cov = dict(ctx.coverage)
    cov.setdefault("states", ctx.states)
    cov.setdefault("transitions", ctx.transitions)
    ev = {
        "property_id": ctx.pid,
        "tier": ctx.tier,
        "seed": ctx.seed,
        "level": ctx.level,
        "coverage": cov,
        "assumptions": ctx.assumptions,
        "wall_s": round(time.time() - ctx.t0, 2),
        "violations": nviol,
    }
    p = os.path.join(evdir, f"{ctx.pid}.json")
    with open(p + ".tmp", "w") as f:
        json.dump(ev, f, indent=1, default=str)
    os.replace(p + ".tmp", p)


def main(pid: str, run: Callable[[Ctx], None], replay: Callable[[Ctx, Any], None] | None = None,
         selftest: Callable[[Ctx], None] | None = None) -> None:
    ap = argparse.ArgumentParser()
    ap.add_argument("--tier", default=os.environ.get("VERIF_TIER", "quick"), choices=["quick", "thorough"])
    ap.add_argument("--replay", default=None)
    ap.add_argument("--selftest", action="store_true")
    ap.add_argument("--keep", action="store_true")
    args, rest = ap.parse_known_args()
    args.rest = rest
    seed = int(os.environ.get("VERIF_SEED", "0") or 0)
    os.makedirs(os.path.join(VERIF, "work"), exist_ok=True)
    workdir = tempfile.mkdtemp(prefix=f"{pid}_", dir=os.path.join(VERIF, "work"))
    # temporary files of everything the check starts (selene build/run directories, pytket, ...) live inside the
    # check's own work directory, which is removed at the end: nothing accumulates under /tmp
    tmp = os.path.join(workdir, "tmp")
    os.makedirs(tmp, exist_ok=True)
    os.environ["TMPDIR"] = tmp
    tempfile.tempdir = tmp
    ctx = Ctx(pid, args.tier, seed, workdir, args)
    rc = 0
    try:
        if args.selftest:
            if selftest is None:
                raise Machinery("no selftest")
            selftest(ctx)
            print(f"SELFTEST-OK {pid}")
            return
        if args.replay:
            if replay is None:
                raise Machinery("no replay support")
            replay(ctx, json.load(open(args.replay)))
        else:
            run(ctx)
        known = [k for k in load_known() if k.get("property") == pid and "fixed" not in k]
        knownkeys = {k["key"]: k for k in known}
        new = []
        seen_known = set()
        for v in ctx.violations:
            if v.key in knownkeys:
                if v.key not in seen_known:
                    print(f"KNOWN-FINDING: property={pid} {knownkeys[v.key].get('what', v.what)} [key={v.key}]")
                    seen_known.add(v.key)
            else:
                new.append(v)
        ctx.coverage["known_findings_seen"] = sorted(seen_known)
        if not args.replay:
            write_evidence(ctx, len(new))
        if new:
            os.makedirs(REPLAYS, exist_ok=True)
            seenk = set()
            for v in new:
                if v.key in seenk:
                    continue
                seenk.add(v.key)
                path = os.path.join(REPLAYS, f"{pid}_{sha(v.key)}.json")
                with open(path, "w") as f:
                    json.dump({"property": pid, "key": v.key, "what": v.what, "replay": v.replay}, f, indent=1, default=str)
                print(f"VIOLATION property={pid} replay={path}")
                print(f"  what: {v.what[:600]}", file=sys.stderr)
            rc = 1
        else:
            print(f"OK property={pid} tier={ctx.tier} wall={time.time() - ctx.t0:.1f}s")
    except Machinery as e:
        print(f"MACHINERY-FAILURE property={pid}: {e}", file=sys.stderr)
        rc = 2
    except Exception:
        import traceback

        traceback.print_exc()
        print(f"MACHINERY-FAILURE property={pid}: unexpected exception", file=sys.stderr)
        rc = 2
    finally:
        if not args.keep:
            shutil.rmtree(workdir, ignore_errors=True)
    sys.exit(rc)
