"""C18 helpers: driver programs for range() and rendering of the comptime-size cases."""
from __future__ import annotations

MAX = (1 << 63) - 1
MIN = -(1 << 63)

# `limit` bounds the number of reported values: a sequence longer than Python's is cut after
# limit values ("more") instead of running until the step budget is exhausted.
DRIVER = '''
@guppy
def r3(a: int, b: int, c: int, limit: int) -> None:
    cnt = 0
    for i in range(a, b, c):
        if cnt >= limit:
            result("more", 1)
            break
        result("i", i)
        cnt += 1
    result("end", cnt)

@guppy
def r2(a: int, b: int, limit: int) -> None:
    cnt = 0
    for i in range(a, b):
        if cnt >= limit:
            result("more", 1)
            break
        result("i", i)
        cnt += 1
    result("end", cnt)

@guppy
def r1(b: int, limit: int) -> None:
    cnt = 0
    for i in range(b):
        if cnt >= limit:
            result("more", 1)
            break
        result("i", i)
        cnt += 1
    result("end", cnt)
'''


def args_for(form: str, call: list, limit: int) -> list:
    a, b, c = call
    return {"r3": [a, b, c, limit], "r2": [a, b, limit], "r1": [b, limit]}[form]


def project(events: list) -> list:
    out = []
    for e in events:
        if e[0] == "result":
            out.append([e[1], e[3] if not isinstance(e[3], bool) else int(e[3])])
        elif e[0] in ("panic", "exit"):
            out.append(["panic", 0])
    return out


def expected_events(seq: list) -> list:
    return [["i", v] for v in seq] + [["end", len(seq)]]


def wrap64(x: int) -> int:
    return (x - MIN) % (1 << 64) + MIN


def static_src(form: str, n: int, m: int) -> str:
    """Program using the comptime-sized range(n) where exactly m elements are demanded."""
    if form == "unpack":
        names = [f"t{k}" for k in range(m)]
        body = [f"    [{', '.join(names)}] = range({n})"]
        body += [f'    result("i", {t})' for t in names]
        body += [f'    result("end", {m})']
        return "@guppy\ndef main() -> None:\n" + "\n".join(body) + "\n"
    if form == "array":
        return (f"@guppy\ndef main() -> None:\n    xs: array[int, {m}] = array(i for i in range({n}))\n"
                f'    for x in xs:\n        result("i", x)\n    result("end", {m})\n')
    if form == "annot":
        return (f"@guppy\ndef f() -> SizedIter[Range, {m}]:\n    return range({n})\n\n"
                f"@guppy\ndef main() -> None:\n    xs = array(i for i in f())\n"
                f'    for x in xs:\n        result("i", x)\n    result("end", {m})\n')
    raise ValueError(form)


STATIC_PRELUDE_EXTRA = "from guppylang.std.builtins import SizedIter, Range\n"
