#!/bin/sh
# usage: seeded.sh <seeded-name> <check id>...
# Applies /verif/seeded/<name>/patch.diff to a scratch worktree of /repo HEAD, runs the demo on both trees and the
# given checks (quick tier) against the changed tree; prints one summary line per step. Removes the worktree afterwards.
N=$1; shift
V=$(cd "$(dirname "$0")/.." && pwd)
WT=${TMPDIR:-/tmp}/seed_wt_$N
git -C /repo worktree remove --force $WT >/dev/null 2>&1
git -C /repo worktree add -q $WT HEAD --detach || exit 2
( cd $WT && git apply $V/seeded/$N/patch.diff ) || { echo "$N: patch does not apply"; git -C /repo worktree remove --force $WT; exit 2; }
export PYTHONDONTWRITEBYTECODE=1
D0=$(VERIF_REPO=/repo PYTHONPATH=$V/harness:$V/harness/compat /venv/bin/python $V/seeded/$N/demo.py >/dev/null 2>&1; echo $?)
D1=$(VERIF_REPO=$WT PYTHONPATH=$V/harness:$V/harness/compat /venv/bin/python $V/seeded/$N/demo.py >/dev/null 2>&1; echo $?)
echo "$N demo: unchanged=$D0 changed=$D1"
mkdir -p $V/work/seeded
for c in "$@"; do
  VERIF_REPO=$WT $V/check $c --tier quick > $V/work/seeded/$N.$c.out 2> $V/work/seeded/$N.$c.err; rc=$?
  echo "$N check $c: rc=$rc violations=$(grep -c '^VIOLATION' $V/work/seeded/$N.$c.out) keys=$(grep '^VIOLATION' $V/work/seeded/$N.$c.out | head -3 | tr '\n' ' ')"
done
git -C /repo worktree remove --force $WT
