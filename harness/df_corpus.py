"""Seeded generator of small structured Guppy programs that exercise the CFG builder and
the dataflow analyses: assignments and uses of a few int/bool variables under
if/elif/else, while, for, break/continue/return, with literal True/False conditions
(dummy edges, unreachable code) and nested function definitions.

Programs need not be accepted by the checker - rejected ones exercise diagnostics.
"""
from __future__ import annotations

import random

HAND = [
    # (name, source) - each defines `f`
    ("while_true_tail_use", """
@guppy
def f() -> int:
    x = 1
    while True:
        pass
    return x
"""),
    ("while_true_break", """
@guppy
def f(c: bool) -> int:
    x = 1
    while True:
        if c:
            break
        x += 1
    return x
"""),
    ("if_false_use", """
@guppy
def f(c: bool) -> int:
    x = 1
    if False:
        y = x + 1
    else:
        y = 2
    return y
"""),
    ("unreachable_after_return", """
@guppy
def f(c: bool) -> int:
    x = 1
    return x
    y = x + 2
    while c:
        y += x
    return y
"""),
    ("diamond_use", """
@guppy
def f(c: bool, d: bool) -> int:
    x = 3
    if d:
        pass
    if c:
        y = x + 1
    else:
        y = x + 2
    return y
"""),
    ("undefined_two_uses", """
@guppy
def f(c: bool, d: bool) -> int:
    if d:
        pass
    if c:
        y = u + 1
    else:
        y = u + 2
    return y
"""),
    ("maybe_undefined", """
@guppy
def f(c: bool) -> int:
    if c:
        x = 1
    return x
"""),
    ("two_type_conflicts", """
@guppy
def f(c: bool) -> int:
    if c:
        x = 1
        y = 2
    else:
        x = True
        y = False
    if x:
        return 1
    if y:
        return 2
    return 0
"""),
    ("loop_conflict", """
@guppy
def f(n: int) -> int:
    x = 0
    y = 0
    i = 0
    while i < n:
        x = 1.0
        y = 2.0
        i += 1
    return int(x) + int(y)
"""),
    ("nested_capture", """
@guppy
def f(a: int) -> int:
    b = a + 1
    def g(z: int) -> int:
        return z + b
    return g(a)
"""),
    ("nested_loop_break_continue", """
@guppy
def f(n: int) -> int:
    s = 0
    i = 0
    while i < n:
        j = 0
        while True:
            j += 1
            if j > i:
                break
            if j == 2:
                continue
            s += j
        i += 1
    return s
"""),
    ("for_range", """
@guppy
def f(n: int) -> int:
    s = 0
    for i in range(n):
        if i == 3:
            continue
        s += i
    return s
"""),
    ("while_false", """
@guppy
def f(n: int) -> int:
    s = n
    while False:
        s = t
        t = 1
    return s
"""),
    ("dead_loop_types", """
@guppy
def f(n: int) -> int:
    return n
    x = 1
    while n > 0:
        x = 1.5
    return 0
"""),
    ("inout_loop", """
@guppy
def f(q: qubit, n: int) -> None:
    i = 0
    while True:
        h(q)
        i += 1
"""),
    ("inout_branch", """
@guppy
def f(q: qubit, c: bool) -> None:
    if c:
        h(q)
    else:
        x(q)
"""),
]


class Gen:
    def __init__(self, rng: random.Random, nvars=3, allow_undefined=True, literal_conds=True, types=("int",)):
        self.rng, self.nvars = rng, nvars
        self.vars = ["a", "b", "c"][:nvars]
        self.allow_undefined = allow_undefined
        self.literal_conds = literal_conds
        self.types = types

    def expr(self, defined):
        pool = list(defined) if (defined and (not self.allow_undefined or self.rng.random() < 0.85)) else self.vars
        r = self.rng.random()
        if r < 0.3 or not pool:
            return str(self.rng.randint(0, 5))
        v = self.rng.choice(pool)
        if r < 0.7:
            return v
        return f"{v} + {self.rng.randint(1, 3)}"

    def cond(self, defined):
        r = self.rng.random()
        if self.literal_conds and r < 0.12:
            return self.rng.choice(["True", "False"])
        if r < 0.5:
            return "p"
        if r < 0.7:
            return "not p"
        return f"{self.expr(defined)} < {self.rng.randint(0, 5)}"

    def block(self, depth, budget, defined, in_loop):
        out = []
        defined = set(defined)
        n = self.rng.randint(1, 3)
        for _ in range(n):
            if budget[0] <= 0:
                break
            budget[0] -= 1
            r = self.rng.random()
            if r < 0.35 or depth >= 3:
                v = self.rng.choice(self.vars)
                if len(self.types) > 1 and self.rng.random() < 0.25:
                    out.append(f"{v} = {self.rng.choice(['True', '1.5'])}")
                else:
                    out.append(f"{v} = {self.expr(defined)}")
                defined.add(v)
            elif r < 0.45:
                out.append(f"result(\"t\", {self.expr(defined)})")
            elif r < 0.65:
                c = self.cond(defined)
                t, d1 = self.block(depth + 1, budget, defined, in_loop)
                out.append(f"if {c}:")
                out += ["    " + l for l in t]
                if self.rng.random() < 0.6:
                    e, d2 = self.block(depth + 1, budget, defined, in_loop)
                    out.append("else:")
                    out += ["    " + l for l in e]
                    defined = d1 & d2 if self.rng.random() < 0.8 else d1 | d2
            elif r < 0.8:
                c = self.cond(defined)
                b, _ = self.block(depth + 1, budget, defined, True)
                out.append(f"while {c}:")
                out += ["    " + l for l in b]
            elif r < 0.86:
                b, _ = self.block(depth + 1, budget, defined | {"i"}, True)
                out.append(f"for i in range({self.rng.randint(0, 3)}):")
                out += ["    " + l for l in b]
            elif r < 0.92 and in_loop:
                out.append(self.rng.choice(["break", "continue"]))
                break
            elif r < 0.97:
                out.append(f"return {self.expr(defined)}")
                if self.rng.random() < 0.7:
                    break
            else:
                v = self.rng.choice(self.vars)
                out.append(f"def g(z: int) -> int:")
                out.append(f"    return z + {self.expr(defined)}")
                out.append(f"{v} = g({self.expr(defined)})")
                defined.add(v)
        if not out:
            out = ["pass"]
        return out, defined

    def program(self, size=7):
        budget = [size]
        body, defined = self.block(0, budget, {"a"}, False)
        body.append(f"return {self.expr(defined)}")
        src = "@guppy\ndef f(a: int, p: bool) -> int:\n" + "\n".join("    " + l for l in body) + "\n"
        return src


def programs(seed: int, n: int, **kw):
    rng = random.Random(seed)
    out = [(name, src) for name, src in HAND]
    g = Gen(rng, **kw)
    seen = {s for _, s in out}
    tries = 0
    while len(out) < len(HAND) + n and tries < 20 * n:
        tries += 1
        s = g.program(rng.randint(4, 9))
        if s not in seen:
            seen.add(s)
            out.append((f"gen{len(out)}", s))
    return out
