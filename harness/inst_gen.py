"""C01 family E: generic callees x instantiating value types x use contexts.

Every program instantiates the type parameters of a small generic callee with one value type
(scalars, None, the empty tuple, nested tuples containing None, affine arrays, structs incl. an
empty one, options, function values, a linear qubit) and uses the result in one context
(straight line, across a branch merge, around a loop, nested call, discarded).  The lifecycle
automaton (spec/Lifecycle01.tla) does the judging: whatever the checker accepts must compile
and validate.  Programs the checker rejects (e.g. a copyable bound not met) are not C01's subject.
"""
from __future__ import annotations

HEADER = '''
from typing import Callable, Generic
from guppylang.std.option import Option, some, nothing
from guppylang.std.builtins import owned

TL = guppy.type_var("TL", copyable=False, droppable=False)
UL = guppy.type_var("UL", copyable=False, droppable=False)
TC = guppy.type_var("TC")
UC = guppy.type_var("UC")

@guppy.struct
class Pt:
    p1: int
    p2: float

@guppy.struct
class Em:
    pass

@guppy.struct
class Box(Generic[TL]):
    val: TL

@guppy
def incr(k0: int) -> int:
    return k0 + 1

@guppy
def ident(val: TL @owned) -> TL:
    return val

@guppy.declare
def dident(val: TL @owned) -> TL: ...

@guppy
def dup(val: TC) -> tuple[TC, TC]:
    return val, val

@guppy
def fst(val: TL @owned, oth: UC) -> TL:
    return val

@guppy
def snd(oth: UC, val: TL @owned) -> TL:
    return val

@guppy
def wrap(val: TL @owned) -> tuple[TL, int]:
    return val, 3

@guppy
def optw(val: TL @owned) -> Option[TL]:
    return some(val)

@guppy
def apply0(fun: Callable[[], TL]) -> TL:
    return fun()

@guppy
def apply1(fun: Callable[[TC], UC], val: TC) -> UC:
    return fun(val)

@guppy
def apply1l(fun: Callable[[TL @owned], UL], val: TL @owned) -> UL:
    return fun(val)

@guppy
def compose(fun: Callable[[TC], UC], gun: Callable[[UC], TC], val: TC) -> TC:
    return gun(fun(val))

@guppy
def wrapfn(fun: Callable[[TC], UC]) -> Callable[[TC], UC]:
    return fun

@guppy
def unbox(bx: Box[TL] @owned) -> TL:
    return bx.val

@guppy
def arr2(val: TC) -> array[TC, 2]:
    return array(val, val)
'''

# name -> (annotation, expression, linear?)
VALUES = {
    "int": ("int", "7", False),
    "float": ("float", "2.5", False),
    "bool": ("bool", "True", False),
    "nat": ("nat", "nat(3)", False),
    "none": ("None", "None", False),
    "unit": ("tuple[()]", "()", False),
    "pair": ("tuple[int, bool]", "(1, True)", False),
    "nested": ("tuple[int, tuple[float, None]]", "(1, (2.5, None))", False),
    "nones": ("tuple[None, None]", "(None, None)", False),
    "arr": ("array[int, 2]", "array(1, 2)", False),
    "struct": ("Pt", "Pt(1, 2.5)", False),
    "empty": ("Em", "Em()", False),
    "opt": ("Option[int]", "some(3)", False),
    "fn": ("Callable[[int], int]", "incr", False),
    "qubit": ("qubit", "qubit()", True),
}

# shape -> (call template over {V}, result form)   result form: "T" the value type itself, "TT" pair, "TI" (T, int), "A" array
SHAPES = {
    "ident": ("ident({V})", "T"),
    "dident": ("dident({V})", "T"),
    "dup": ("dup({V})", "TT"),
    "fst": ("fst({V}, 5)", "T"),
    "snd": ("snd(2.5, {V})", "T"),
    "wrap": ("wrap({V})", "TI"),
    "optw": ("optw({V}).unwrap()", "T"),
    "apply0": ("apply0(mk)", "T"),
    "apply1": ("apply1{L}(use, {V})", "T"),
    "compose": ("compose(use, use, {V})", "T"),
    "partial": ("wrapfn(use)({V})", "T"),
    "unbox": ("unbox(Box({V}))", "T"),
    "arr2": ("arr2({V})", "A"),
    "explicit": ("ident[{ANN}]({V})", "T"),
}
CONTEXTS = ["straight", "branch", "loop", "nested", "discard"]


def program(shape: str, value: str, context: str) -> dict | None:
    ann, expr, linear = VALUES[value]
    affine = value in ("arr", "qubit")
    if affine and shape in ("compose", "partial"):
        return None
    call_t, form = SHAPES[shape]
    if shape == "explicit" and value == "fn":
        return None

    def call(arg):
        return call_t.format(V=arg, ANN=ann, L="l" if affine else "")

    helpers = f"""
@guppy
def mk() -> {ann}:
    return {expr}

@guppy
def use(val: {ann}{" @owned" if affine else ""}) -> {ann}:
    return val
"""
    body: list[str] = []
    consume_t = {"T": ["discard(res)"], "TT": None, "TI": ["q0, k1 = res", "discard(q0)"], "A": None}[form] if linear else []
    if consume_t is None:
        return None  # copyable bound: a linear value can never be accepted there
    if context == "straight":
        body += [f"res = {call(expr)}"] + consume_t
    elif context == "branch":
        if form != "T":
            body += [f"res = {call(expr)}", "if cnd:", f"    res = {call(expr)}" if not linear else "    pass"] + consume_t
        else:
            body += ["if cnd:", f"    res = {call(expr)}", "else:", f"    res = {expr}"] + consume_t
    elif context == "loop":
        if form != "T":
            return None
        body += [f"res = {expr}", "i0 = 0", "while i0 < 2:", f"    res = {call('res')}", "    i0 += 1"] + consume_t
    elif context == "nested":
        if form != "T":
            return None
        body += [f"res = ident({call(expr)})"] + consume_t
    elif context == "discard":
        if linear:
            return None
        body += [f"{call(expr)}"]
    src = HEADER + helpers + "\n@guppy\ndef main(cnd: bool) -> None:\n" + "".join("    " + l + "\n" for l in body)
    return {"id": f"inst:{shape}:{value}:{context}", "src": src, "entry": "main", "experimental": False, "prelude": None}


def programs(quick: bool) -> list[dict]:
    out = []
    for si, shape in enumerate(SHAPES):
        for vi, value in enumerate(VALUES):
            ctxs = CONTEXTS if not quick else ["straight", CONTEXTS[1 + (si + vi) % 4]]
            for c in ctxs:
                p = program(shape, value, c)
                if p:
                    out.append(p)
    return out


FN_SHAPES = ("apply0", "apply1", "compose", "partial")


def key_of(pid: str, ev: dict) -> str:
    """Failure key of a family-E program: the (callee shape, value type) pair identifies the input; the four shapes
    taking a function-typed argument form one class (`fnarg`)."""
    _, shape, value, _ctx = pid.split(":")
    if shape in FN_SHAPES:
        return f"inst:fnarg:{value}"
    return f"inst:{shape}:{value}:{ev['ev']}:{ev['out']}:{ev.get('cls')}"
