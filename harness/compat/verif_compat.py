"""Dependency compatibility shim: lets /repo's guppylang 0.21.6 sources (written for
hugr~=0.14, tket-exts~=0.12) run on the installed hugr 0.18 / tket-exts 0.14.

Only third-party modules are touched; no guppylang function is patched.
Import this module *before* importing guppylang.
"""
from __future__ import annotations

import functools
import os
import sys
import types
import warnings
import weakref

warnings.filterwarnings("ignore", category=DeprecationWarning)

import hugr.ext as he
import hugr.tys as ht
import hugr.val as hv
import hugr.hugr.base as hb
import tket_exts
from hugr.hugr.node_port import Node

REPO = os.environ.get("VERIF_REPO", "/repo")
for p in (f"{REPO}/guppylang/src", f"{REPO}/guppylang-internals/src"):
    if p not in sys.path:
        sys.path.insert(0, p)


# 1. tket.bool extension (dropped from tket-exts 0.14) -------------------------------
@functools.cache
def _bool_ext() -> he.Extension:
    e = he.Extension("tket.bool", he.Version(0, 2, 0))
    td = e.add_type_def(
        he.TypeDef(
            name="bool",
            description="An opaque bool type",
            params=[],
            bound=he.ExplicitBound(ht.TypeBound.Copyable),
        )
    )
    ob = ht.ExtType(td)

    def sig(i, o):
        return he.OpDefSig(ht.PolyFuncType([], ht.FunctionType(i, o)))

    for n, i, o in [
        ("and", [ob, ob], [ob]),
        ("or", [ob, ob], [ob]),
        ("xor", [ob, ob], [ob]),
        ("eq", [ob, ob], [ob]),
        ("not", [ob], [ob]),
        ("read", [ob], [ht.Bool]),
        ("make_opaque", [ht.Bool], [ob]),
    ]:
        e.add_op_def(he.OpDef(name=n, description=n, signature=sig(i, o)))
    return e


tket_exts.bool = _bool_ext


def _obool():
    return ht.ExtType(_bool_ext().get_type("bool"))


# 2. Node.metadata (dropped in hugr 0.18): nodes handed out by Hugr.module_root and
#    Hugr.insert_hugr remember their Hugr so `.metadata` keeps working ------------------
class _MetaNode(Node):
    @property
    def metadata(self):
        h = self.__dict__["_verif_hugr"]()
        return h[Node(self.idx)].metadata

    __hash__ = Node.__hash__
    __eq__ = Node.__eq__
    __repr__ = Node.__repr__


def _meta(h, n: Node) -> Node:
    new = object.__new__(_MetaNode)
    new.__dict__.update(n.__dict__)
    new.__dict__["_verif_hugr"] = weakref.ref(h)
    return new


_orig_hugr_init = hb.Hugr.__init__


def _hugr_init(self, *a, **k):
    _orig_hugr_init(self, *a, **k)
    self.module_root = _meta(self, self.module_root)


hb.Hugr.__init__ = _hugr_init
_orig_insert = hb.Hugr.insert_hugr


def _insert_hugr(self, *a, **k):
    m = _orig_insert(self, *a, **k)
    return {kk: _meta(self, v) for kk, v in m.items()}


hb.Hugr.insert_hugr = _insert_hugr

# 3. hv.Extension(extensions=...) keyword dropped -------------------------------------
_orig_ext_init = hv.Extension.__init__


def _ext_init(self, *a, **k):
    k.pop("extensions", None)
    _orig_ext_init(self, *a, **k)


hv.Extension.__init__ = _ext_init


# 4. op signatures of the measurement ops as in tket-exts 0.12 ------------------------
def _setsig(ext: he.Extension, name: str, i, o) -> None:
    s = he.OpDefSig(ht.PolyFuncType([], ht.FunctionType(i, o)))
    if name in ext.operations:
        object.__setattr__(ext.operations[name], "signature", s)
    else:
        ext.add_op_def(he.OpDef(name=name, description=name, signature=s))


_q = tket_exts.quantum()
_setsig(_q, "MeasureFree", [ht.Qubit], [_obool()])
_qs = tket_exts.qsystem()
_qs.operations.pop("FutureToMeasurement", None)  # refers to tket.measurement types
_setsig(_qs, "Measure", [ht.Qubit], [_obool()])
_setsig(_qs, "MeasureReset", [ht.Qubit], [ht.Qubit, _obool()])

# 5. tket.circuit.Tk2Circuit -----------------------------------------------------------
try:
    import tket  # noqa: F401

    if "tket.circuit" not in sys.modules:
        _m = types.ModuleType("tket.circuit")

        class Tk2Circuit:
            def __init__(self, circ):
                from tket._state import CompilationState

                self._st = CompilationState.from_tket1(circ)

            def to_bytes(self, cfg):
                return self._st.to_bytes(cfg)

            def to_str(self, cfg):
                return self._st.to_str(cfg)

        _m.Tk2Circuit = Tk2Circuit
        sys.modules["tket.circuit"] = _m
        tket.circuit = _m
except Exception:  # pragma: no cover
    pass


def assert_repo_import() -> None:
    """Machinery guard: the guppylang under test must be /repo's working tree."""
    import guppylang
    import guppylang_internals

    for m in (guppylang, guppylang_internals):
        f = os.path.realpath(m.__file__)
        if not f.startswith(os.path.realpath(REPO) + os.sep):
            raise SystemExit(f"MACHINERY: {m.__name__} imported from {f}, not {REPO}")
