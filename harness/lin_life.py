"""C01: record the lifecycle trace  check -> compile -> validate  of one definition from /repo.

job    {"id", "src", "entry", "experimental": bool}
result {"id", "ev": [{"ev": "check"|"compile"|"validate", "out": "ok"|"rejected"|"exc"|"err",
                      "cls": exception / diagnostic class, "where": raising location or message class,
                      "msg": text}], "machinery": optional harness failure}
"""
from __future__ import annotations

import os
import re
import traceback


def _where(e: BaseException) -> str:
    """innermost frame inside guppylang / guppylang_internals: file:function"""
    loc = "?"
    for fr in traceback.extract_tb(e.__traceback__):
        if "guppylang" in fr.filename:
            loc = f"{os.path.basename(fr.filename)}:{fr.name}"
    return loc


def msg_class(msg: str) -> str:
    """validator message with node numbers and concrete types abstracted"""
    m = msg
    i = m.find("1:")
    if i >= 0:
        m = m[i + 2:]
    m = m.strip().splitlines()[0] if m.strip() else m
    m = m.split(" The source type was")[0]
    m = re.sub(r"of type .*?( with|\.?$)", r"of type <T>\1", m)
    m = re.sub(r"\d+", "#", m)
    return m[:160]


def life_job(job: dict) -> dict:
    import gp
    import guppylang_internals.experimental as ex
    from guppylang_internals.error import GuppyError

    import runner

    res: dict = {"id": job["id"], "ev": []}
    mod = None
    prev = ex.EXPERIMENTAL_FEATURES_ENABLED
    ex.EXPERIMENTAL_FEATURES_ENABLED = bool(job.get("experimental"))
    try:
        try:
            mod = gp.load(job["src"], prelude=job.get("prelude") or gp.PRELUDE)
            d = getattr(mod, job["entry"])
        except GuppyError as e:  # raised while the module body runs (e.g. by a decorator)
            res["ev"].append({"ev": "check", "out": "rejected", "cls": type(e.error).__name__})
            return res
        except BaseException as e:  # noqa: BLE001
            res["machinery"] = f"cannot load program: {type(e).__name__}: {e}"
            return res
        try:
            d.check()
            res["ev"].append({"ev": "check", "out": "ok"})
        except GuppyError as e:
            res["ev"].append({"ev": "check", "out": "rejected", "cls": type(e.error).__name__,
                              "msg": getattr(e.error, "rendered_title", "")})
            return res
        except BaseException as e:  # noqa: BLE001
            c = runner.classify_exception(e)
            out = "rejected" if c["class"] in ("GuppyComptimeError", "GuppyTypeError") else "exc"
            res["ev"].append({"ev": "check", "out": out, "cls": c["class"], "where": _where(e), "msg": str(e)[:300]})
            return res
        try:
            pkg = d.compile_function() if hasattr(d, "compile_function") else d.compile()
            data = pkg.to_bytes()
            res["ev"].append({"ev": "compile", "out": "ok"})
        except BaseException as e:  # noqa: BLE001
            cls = type(e.error).__name__ if isinstance(e, GuppyError) else type(e).__name__
            res["ev"].append({"ev": "compile", "out": "exc", "cls": cls, "where": _where(e), "msg": str(e)[:300]})
            return res
        try:
            gp.validate(data)
            res["ev"].append({"ev": "validate", "out": "ok"})
        except BaseException as e:  # noqa: BLE001
            msg = runner.validation_msg(e)
            res["ev"].append({"ev": "validate", "out": "err", "cls": type(e).__name__, "where": msg_class(msg), "msg": msg[:400]})
        return res
    except BaseException as e:  # noqa: BLE001
        res["machinery"] = f"{type(e).__name__}: {e}\n{traceback.format_exc()[-1500:]}"
        return res
    finally:
        ex.EXPERIMENTAL_FEATURES_ENABLED = prev
        if mod is not None:
            gp.unload(mod)


def key_of(res: dict) -> str | None:
    """stable key of a lifecycle failure: event, outcome, class, location / message class"""
    for e in res["ev"]:
        if e["out"] in ("exc", "err"):
            return f"{e['ev']}:{e['out']}:{e.get('cls')}:{e.get('where')}"
    return None
