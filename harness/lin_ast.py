"""C06/C01: AST of the linear core fragment (the JSON handed to spec/Linearity.tla) and its
rendering as Guppy source.  The same dicts are (a) serialised for TLC and (b) rendered for /repo.

types  {"k":"qubit"} | {"k":"tuple"|"struct","name":..,"fn":[component names],"el":[types]}
exprs  {"e":"place","p":[root, comp, ...]} | {"e":"new"} | {"e":"opaque","v":name|""} | {"e":"none"}
     | {"e":"call","f":name,"args":[..]} | {"e":"tuple"|"struct","name":..,"els":[..]}
     | {"e":"proj","of":expr,"c":component}
stmts  {"k":"assign","tgts":[path,..],"val":expr} | {"k":"expr","val":expr} | {"k":"pass"}
     | {"k":"if","c":expr,"then":[..],"else":[..]} | {"k":"while","c":expr,"body":[..]}
     | {"k":"break"} | {"k":"continue"} | {"k":"return","val":expr}
prog   {"id":int,"vars":{name:{"ty":type,"kind":"local"|"owned"|"borrowed"}},"params":[names],
        "bparams":[bool parameter names],"ret":"none"|"lin","rty":type|None,"body":[..]}
"""
from __future__ import annotations

import copy

Q = {"k": "qubit"}
T2 = {"k": "tuple", "name": "T2", "fn": ["0", "1"], "el": [Q, Q]}
S = {"k": "struct", "name": "S", "fn": ["a", "b"], "el": [Q, Q]}
N = {"k": "struct", "name": "N", "fn": ["x", "c"], "el": [S, Q]}
TS = {"k": "tuple", "name": "TS", "fn": ["0", "1"], "el": [S, Q]}
# rich (C01) extras: a qubit array is ONE linear leaf for the specification (its elements can only be
# borrowed through subscripts); M has a classical field next to the qubit
ARR = {"k": "qubit", "name": "ARR", "r": "array[qubit, 2]"}
M = {"k": "struct", "name": "M", "fn": ["q"], "el": [Q], "clsfields": ["k"]}
AGGS = [T2, S, N, TS]
RICH_AGGS = [M]
TYPES = {"Q": Q, "T2": T2, "S": S, "N": N, "TS": TS, "ARR": ARR, "M": M}


def tname(ty) -> str:
    return ty.get("name") or "Q"


def render_type(ty) -> str:
    if ty["k"] == "qubit":
        return ty.get("r", "qubit")
    if ty["k"] == "tuple":
        return "tuple[" + ", ".join(render_type(t) for t in ty["el"]) + "]"
    return ty["name"]


# function table: modes/ret are what the specification sees; ptys/rty are for the generator/renderer
def _f(modes, ret, ptys, rty=None, builtin=False, tmpl=None, rich=False):
    return {"modes": modes, "ret": ret, "ptys": ptys, "rty": rty, "builtin": builtin, "tmpl": tmpl, "rich": rich}


FUNCS = {
    "h": _f(["B"], "none", [Q], builtin=True),
    "cx": _f(["B", "B"], "none", [Q, Q], builtin=True),
    "discard": _f(["O"], "none", [Q], builtin=True),
    "measure": _f(["O"], "bool", [Q], builtin=True),
    "fo": _f(["O"], "lin", [Q], Q),
    "fm": _f(["B", "O"], "lin", [Q, Q], Q),
}
for _t in AGGS:
    FUNCS["b_" + _t["name"]] = _f(["B"], "none", [_t])
    FUNCS["c_" + _t["name"]] = _f(["O"], "none", [_t])
    FUNCS["m_" + _t["name"]] = _f([], "lin", [], _t)

for _t in RICH_AGGS:
    FUNCS["b_" + _t["name"]] = _f(["B"], "none", [_t], rich=True)
    FUNCS["c_" + _t["name"]] = _f(["O"], "none", [_t], rich=True)
FUNCS.update({
    # qubit arrays: element access is a borrow of the whole array
    "h_a0": _f(["B"], "none", [ARR], builtin=True, tmpl="h({0}[0])", rich=True),
    "cx_a": _f(["B"], "none", [ARR], builtin=True, tmpl="cx({0}[1], {0}[0])", rich=True),
    "discard_array": _f(["O"], "none", [ARR], builtin=True, rich=True),
    "measure_array": _f(["O"], "none", [ARR], builtin=True, rich=True),
    "m_ARR": _f([], "lin", [], ARR, builtin=True, tmpl="array(qubit() for _ in range(2))", rich=True),
    "mk_ARR": _f(["O", "O"], "lin", [Q, Q], ARR, builtin=True, tmpl="array({0}, {1})", rich=True),
    # comptime argument, generic callees (defined in the rich header), nested function (defined in main)
    "ct": _f(["B"], "none", [Q], builtin=True, tmpl="ct({0}, comptime(2))", rich=True),
    "ct3": _f(["B"], "none", [Q], builtin=True, tmpl="ct({0}, 3)", rich=True),
    "gid": _f(["O"], "lin", [None], None, builtin=True, rich=True),
    "gb": _f(["B"], "none", [None], builtin=True, rich=True),
    "nf": _f(["O"], "lin", [Q], Q, builtin=True, rich=True),
    "gpair": _f(["O", "O"], "lin", [Q, Q], T2, builtin=True, rich=True),   # two type parameters
    "gct": _f(["B"], "none", [None], builtin=True, tmpl="gct({0}, comptime(1))", rich=True),  # generic + comptime
})

SPEC_FUNCS = {n: {"modes": f["modes"], "ret": f["ret"]} for n, f in FUNCS.items()}


BODIES = {  # bodies of the helper functions when they are defined instead of declared
    "fo": "h(x0)\n    return x0",
    "fm": "cx(x0, x1)\n    return x1",
    "b_T2": "h(x0[0])", "c_T2": "a, b = x0\n    discard(a)\n    discard(b)", "m_T2": "return (qubit(), qubit())",
    "b_S": "cx(x0.a, x0.b)", "c_S": "discard(x0.a)\n    measure(x0.b)", "m_S": "return S(qubit(), qubit())",
    "b_N": "h(x0.x.a)\n    h(x0.c)", "c_N": "c_S(x0.x)\n    discard(x0.c)", "m_N": "return N(m_S(), qubit())",
    "b_TS": "b_S(x0[0])", "c_TS": "c_S(x0[0])\n    discard(x0[1])", "m_TS": "return (m_S(), qubit())",
    "b_M": "h(x0.q)", "c_M": "discard(x0.q)",
}

RICH_HEADER = """from guppylang.std.option import Option, some, nothing

T = guppy.type_var("T", copyable=False, droppable=False)


@guppy.struct
class M:
    q: qubit
    k: int


@guppy
def gid(x: T @owned) -> T:
    return x


@guppy
def gb(x: T) -> None:
    pass


@guppy
def ct(q: qubit, n: int @comptime) -> None:
    for _ in range(n):
        h(q)


U = guppy.type_var("U", copyable=False, droppable=False)


@guppy
def gpair(x: T @owned, y: U @owned) -> tuple[T, U]:
    return x, y


@guppy
def gct(x: T, n: int @comptime) -> None:
    gb(x)

"""


def header(rich: bool = False, defined: bool = False) -> str:
    out = [
        "@guppy.struct\nclass S:\n    a: qubit\n    b: qubit\n",
        "@guppy.struct\nclass N:\n    x: S\n    c: qubit\n",
        "@guppy.declare\ndef cond() -> bool: ...\n",
    ]
    if rich:
        out.append(RICH_HEADER)
    for n, f in FUNCS.items():
        if f["builtin"] or (f["rich"] and not rich):
            continue
        ps = ", ".join(
            f"x{i}: {render_type(t)}" + (" @owned" if m == "O" else "")
            for i, (t, m) in enumerate(zip(f["ptys"], f["modes"]))
        )
        r = render_type(f["rty"]) if f["rty"] else "None"
        if defined:
            out.append(f"@guppy\ndef {n}({ps}) -> {r}:\n    {BODIES[n]}\n")
        else:
            out.append(f"@guppy.declare\ndef {n}({ps}) -> {r}: ...\n")
    return "\n".join(out) + "\n"


def render_path(p) -> str:
    s = p[0]
    for c in p[1:]:
        s += f"[{c}]" if c.isdigit() else f".{c}"
    return s


def render_expr(e) -> str:
    k = e["e"]
    if k == "place":
        return render_path(e["p"])
    if k == "new":
        return "qubit()"
    if k == "opaque":
        return e.get("v") or "cond()"
    if k == "none":
        return ""
    if k == "call":
        args = [render_expr(a) for a in e["args"]]
        tmpl = FUNCS[e["f"]]["tmpl"]
        return tmpl.format(*args) if tmpl else f"{e['f']}(" + ", ".join(args) + ")"
    if k == "tuple":
        return "(" + ", ".join(render_expr(a) for a in e["els"]) + ")"
    if k == "struct":
        return f"{e['name']}(" + ", ".join([render_expr(a) for a in e["els"]] + e.get("clsargs", [])) + ")"
    if k == "proj":
        c = e["c"]
        return render_expr(e["of"]) + (f"[{c}]" if c.isdigit() else f".{c}")
    raise ValueError(e)


def number(prog) -> dict:
    """Assign preorder statement ids (1-based) in place; returns the program."""
    ctr = [0]

    def go(stmts):
        for s in stmts:
            ctr[0] += 1
            s["id"] = ctr[0]
            if s["k"] == "if":
                go(s["then"])
                go(s["else"])
            elif s["k"] == "while":
                go(s["body"])

    go(prog["body"])
    prog["nstmts"] = ctr[0]
    return prog


def render(prog) -> tuple[str, dict]:
    """Returns (source text, {statement id: line number in the text (1-based, after gp.PRELUDE)})."""
    lines: list[str] = []
    linemap: dict = {}
    ps = []
    for n in prog["params"]:
        v = prog["vars"][n]
        ps.append(f"{n}: {render_type(v['ty'])}" + (" @owned" if v["kind"] == "owned" else ""))
    for b in prog.get("bparams", []):
        ps.append(f"{b}: bool")
    rt = render_type(prog["rty"]) if prog.get("rty") else "None"
    if prog.get("cret"):  # rich mode: an additional classical return value
        rt = f"tuple[{rt}, int]" if prog.get("rty") else "int"
    hdr = header(bool(prog.get("rich")), bool(prog.get("defined")))
    lines += hdr.splitlines()
    lines.append("@guppy")
    lines.append(f"def main({', '.join(ps)}) -> {rt}:")
    if prog.get("rich"):
        lines += ["    def nf(x: qubit @owned) -> qubit:", "        h(x)", "        return x"]

    def go(stmts, ind):
        pad = "    " * ind
        if not stmts:
            lines.append(pad + "pass")
            return
        for s in stmts:
            linemap[s.get("id", 0)] = len(lines) + 1
            k = s["k"]
            if k == "assign":
                lines.append(pad + ", ".join(render_path(p) for p in s["tgts"]) + " = " + render_expr(s["val"]))
            elif k == "expr":
                lines.append(pad + render_expr(s["val"]))
            elif k in ("pass", "break", "continue"):
                lines.append(pad + k)
            elif k == "cls":
                lines.append(pad + s["src"])
            elif k == "return":
                v = ", ".join(x for x in (render_expr(s["val"]), s.get("cls")) if x)
                lines.append(pad + ("return " + v if v else "return"))
            elif k == "if":
                lines.append(pad + f"if {render_expr(s['c'])}:")
                go(s["then"], ind + 1)
                if s["else"]:
                    lines.append(pad + "else:")
                    go(s["else"], ind + 1)
            elif k == "while":
                c = render_expr(s["c"])
                lines.append(pad + (c[4:] + ":" if c.startswith("FOR:") else f"while {c}:"))
                go(s["body"], ind + 1)
            else:
                raise ValueError(s)

    go(prog["body"], 1)
    return "\n".join(lines) + "\n", linemap


def spec_view(prog) -> dict:
    """The projection of a program that the specification reads (no rendering details)."""

    def ty(t):
        return {"k": "qubit"} if t["k"] == "qubit" else {"k": t["k"], "fn": t["fn"], "el": [ty(x) for x in t["el"]]}

    def ex(e):
        k = e["e"]
        if k == "place":
            return {"e": "place", "p": list(e["p"])}
        if k in ("new", "opaque", "none"):
            return {"e": k}
        if k == "call":
            return {"e": "call", "f": e["f"], "args": [ex(a) for a in e["args"]]}
        if k in ("tuple", "struct"):
            return {"e": k, "els": [ex(a) for a in e["els"]]}
        if k == "proj":
            return {"e": "proj", "of": ex(e["of"])}
        raise ValueError(e)

    def st(s):
        k = s["k"] if s["k"] != "cls" else "pass"   # classical statements do not touch linear places
        d = {"k": k, "id": s["id"]}
        if k == "assign":
            d.update(tgts=[list(p) for p in s["tgts"]], val=ex(s["val"]))
        elif k in ("expr", "return"):
            d.update(val=ex(s["val"]))
        elif k == "if":
            d.update(c=ex(s["c"]), then=[st(x) for x in s["then"]], **{"else": [st(x) for x in s["else"]]})
        elif k == "while":
            d.update(c=ex(s["c"]), body=[st(x) for x in s["body"]])
        return d

    return {
        "id": prog["id"],
        "vars": {n: {"ty": ty(v["ty"]), "kind": v["kind"]} for n, v in prog["vars"].items()},
        "ret": prog["ret"],
        "body": [st(s) for s in prog["body"]],
    }


def batch(progs) -> dict:
    return {"funcs": SPEC_FUNCS, "progs": [spec_view(p) for p in progs]}


def leaves(path, ty):
    if ty["k"] == "qubit":
        return [tuple(path)]
    out = []
    for n, t in zip(ty["fn"], ty["el"]):
        out += leaves(list(path) + [n], t)
    return out


def type_at(prog, path):
    ty = prog["vars"][path[0]]["ty"]
    for c in path[1:]:
        ty = ty["el"][ty["fn"].index(c)]
    return ty


def clone(x):
    return copy.deepcopy(x)
