"""C15 replay worker: check / compile / run one rendered overload case with /repo's guppylang."""
from __future__ import annotations

import traceback


def _check(defn) -> dict:
    from guppylang_internals.error import GuppyError

    try:
        defn.check()
        return {"status": "ok"}
    except GuppyError as e:
        d = e.error
        return {"status": "rejected", "diag": type(d).__name__, "title": getattr(d, "rendered_title", None) or d.title}
    except Exception as e:  # noqa: BLE001
        return {"status": "crash", "class": type(e).__name__, "msg": str(e)[:300], "tb": traceback.format_exc()[-1200:]}


def _callees(h, entry: str) -> list:
    """Names of the functions called (Call ops) inside FuncDefn `entry`."""
    from hugr import ops

    names, root = {}, None
    for n in h.descendants(h.module_root):
        op = h[n].op
        if isinstance(op, (ops.FuncDefn, ops.FuncDecl)):
            names[n] = op.f_name
            if op.f_name == entry and isinstance(op, ops.FuncDefn):
                root = n
    out = []
    for n in h.descendants(root):
        if isinstance(h[n].op, ops.Call):
            for i in range(h.num_in_ports(n) + 1):
                try:
                    links = list(h.linked_ports(n.inp(i)))
                except Exception:  # noqa: BLE001
                    links = []
                out += [names[p.node] for p in links if p.node in names]
    return sorted(out)


def _compile_run(mod, entry: str, args: list, runnable: dict) -> dict:
    import gp
    import runner
    from hugr_interp import Budget, Interp, InterpError, Unsupported

    r: dict = {}
    try:
        pkg = getattr(mod, entry).compile_function()
    except Exception as e:  # noqa: BLE001
        r.update(status="compile_error", error=runner.classify_exception(e))
        return r
    try:
        gp.validate(pkg)
    except Exception as e:  # noqa: BLE001
        r.update(status="invalid", error=runner.validation_msg(e))
        return r
    h = pkg.modules[0]
    r["status"] = "ok"
    r["callees"] = [c for c in _callees(h, entry) if c in runnable]
    if all(runnable[c] for c in r["callees"]):  # a declared function has no body to run
        try:
            it = Interp(h, sched="min", seed=0, budget=100_000)
            out = it.run(entry, [runner.to_interp(a) for a in args])
            r["events"] = runner.jsonable_events(out["events"])
            r["end"] = "panic" if "panic" in out else "exit" if "exit" in out else "return"
        except Budget:
            r["end"] = "budget"
        except Unsupported as e:
            r.update(end="unsupported", msg=str(e))
        except InterpError as e:
            r.update(end="interp_error", msg=str(e))
    return r


def replay_job(job: dict) -> dict:
    """job = {"id", "src", "leaves": [function names in resolution order], "pick": spec's pick (a leaf name or
    None = reject), "runnable": {leaf: has a body}, "args"}; total (never raises)."""
    import gp

    res: dict = {"id": job["id"]}
    mod = None
    try:
        mod = gp.load(job["src"])
        res["o"] = _check(mod.main_o)
        res["d"] = {name: _check(getattr(mod, f"main_d_{name}")) for name in job["leaves"]}
        # nested calls h(f(args)): direct compositions w<k>(<leaf>(args)) the spec asks about
        res["c"] = {f"{k}_{leaf}": _check(getattr(mod, f"main_c_{k}_{leaf}")) for k, leaf in job.get("compose", [])}
        if res["o"]["status"] == "ok":
            res["o_run"] = _compile_run(mod, "main_o", job["args"], job["runnable"])
            res["d_run"] = {}
            if job.get("outer"):
                cal = res["o_run"].get("callees", [])
                ws, vs = [c for c in cal if c.startswith("w")], [c for c in cal if c.startswith("v")]
                want = set()
                if job["pick"]:
                    want.add(job["pick"])  # "<k>_<leaf>"
                if len(ws) == 1 and len(vs) == 1:
                    want.add(f"{ws[0][1:]}_{vs[0]}")
                for name in sorted(want):
                    if hasattr(mod, f"main_c_{name}") and _check(getattr(mod, f"main_c_{name}"))["status"] == "ok":
                        res["d_run"][name] = _compile_run(mod, f"main_c_{name}", job["args"], job["runnable"])
            else:
                # the function the code linked, and the one the spec picked, called directly
                want = set(res["o_run"].get("callees", []))
                if job["pick"]:
                    want.add(job["pick"])
                for name in sorted(want):
                    if res["d"][name]["status"] == "ok":
                        res["d_run"][name] = _compile_run(mod, f"main_d_{name}", job["args"], job["runnable"])
    except BaseException as e:  # noqa: BLE001
        res["machinery"] = {"class": type(e).__name__, "msg": str(e)[:400], "tb": traceback.format_exc()[-1500:]}
    finally:
        if mod is not None:
            gp.unload(mod)
    return res
