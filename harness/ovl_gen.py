"""C15: overload cases (input of spec/Overload.tla) and their rendering to a Guppy module.

case = {"id", "vs": [variant...], "args": [argform...], "mode": "synth"|ty}
variant = {"k": "fn", "ps": [ty...], "ret": ty, "decl": bool}
        | {"k": "set", "vs": [fn variants]}      (a variant that is itself an overloaded function)
ty in nat int float bool T;  argform in vnat vint vfloat vbool lpos lneg lfloat lbool.
"""
from __future__ import annotations

import itertools
import random

TYS = ("nat", "int", "float", "bool", "T")
CONC = ("nat", "int", "float", "bool")
ARGS = ("vnat", "vint", "vfloat", "vbool", "lpos", "lneg", "lfloat", "lbool")
ARG_SRC = {"vnat": "an", "vint": "ai", "vfloat": "af", "vbool": "ab",
           "lpos": "1", "lneg": "-1", "lfloat": "1.5", "lbool": "True"}
MAIN_PARAMS = "an: nat, ai: int, af: float, ab: bool"
MAIN_ARGS = [3, -4, 2.5, True]
RET_SRC = {"nat": "{i}", "int": "-{i}", "float": "{i}.5", "bool": "True"}

# (argform, param) pairs accepted only through an implicit conversion / literal re-typing,
# and pairs that are rejected (used to force the late-failure fall-through)
_RANK = {"nat": 0, "int": 1, "float": 2}
_SYN = {"vnat": "nat", "vint": "int", "vfloat": "float", "vbool": "bool",
        "lpos": "int", "lneg": "int", "lfloat": "float", "lbool": "bool"}


def _accepts(a: str, p: str) -> bool:  # generator-side helper only (shapes, not verdicts)
    if a.startswith("v"):
        s = _SYN[a]
        return s == p or (s in _RANK and p in _RANK and _RANK[s] < _RANK[p])
    return {"lpos": p in _RANK, "lneg": p in ("int", "float"), "lfloat": p == "float", "lbool": p == "bool"}[a]


COERCED = [(a, p) for a in ARGS for p in CONC if _accepts(a, p) and _SYN[a] != p]
REJECTED = [(a, p) for a in ARGS for p in CONC if not _accepts(a, p)]


def fix_decl(v: dict) -> dict:
    """A variant whose result is T without a T parameter cannot have a body: declare it."""
    v.setdefault("k", "fn")
    if v["ret"] == "T" and "T" not in v["ps"]:
        v["decl"] = True
    return v


def small_exhaustive() -> list:
    """All 2-variant sets of arity <= 1 (result int) x all argument lists of arity <= 1 x 3 modes."""
    sigs = [[]] + [[t] for t in TYS]
    out = []
    for p1, p2 in itertools.product(sigs, sigs):
        for args in [[]] + [[a] for a in ARGS]:
            for mode in ("synth", "int", "float"):
                out.append({"vs": [{"k": "fn", "ps": list(p1), "ret": "int", "decl": False},
                                   {"k": "fn", "ps": list(p2), "ret": "int", "decl": False}],
                            "args": list(args), "mode": mode})
    return out


def fallthrough_family(rng: random.Random, n: int | None) -> list:
    """Arity-2 sets whose first variant accepts argument 1 only by coercion and rejects argument 2."""
    out = []
    for (a1, p1), (a2, p2) in itertools.product(COERCED, REJECTED):
        for q1, q2 in itertools.product(TYS, TYS):
            out.append((a1, p1, a2, p2, q1, q2))
    rng.shuffle(out)
    if n is not None:
        out = out[:n]
    cases = []
    for a1, p1, a2, p2, q1, q2 in out:
        vs = [{"k": "fn", "ps": [p1, p2], "ret": rng.choice(CONC), "decl": False},
              fix_decl({"ps": [q1, q2], "ret": rng.choice(TYS), "decl": rng.random() < 0.15})]
        if rng.random() < 0.35:
            vs.append(fix_decl({"ps": [rng.choice(TYS), rng.choice(TYS)], "ret": rng.choice(TYS), "decl": False}))
        if rng.random() < 0.25:  # the late-failing variant in the middle instead of first
            vs[0], vs[1] = vs[1], vs[0]
        mode = "synth" if rng.random() < 0.6 else rng.choice(CONC)
        cases.append({"vs": vs, "args": [a1, a2], "mode": mode})
    return cases


def random_case(rng: random.Random) -> dict:
    nv = rng.choice((2, 3, 3))
    vs = []
    for _ in range(nv):
        ar = rng.choice((0, 1, 1, 2, 2, 2))
        vs.append(fix_decl({"ps": [rng.choice(TYS) for _ in range(ar)], "ret": rng.choice(TYS),
                            "decl": rng.random() < 0.2}))
    ar = len(rng.choice(vs)["ps"]) if rng.random() < 0.85 else rng.choice((0, 1, 2))
    if rng.random() < 0.3:  # one variant is itself an overloaded function
        k = rng.randrange(nv)
        inner = [vs[k]] + [fix_decl({"ps": [rng.choice(TYS) for _ in range(rng.choice((ar, ar, 0, 1, 2)))],
                                     "ret": rng.choice(TYS), "decl": rng.random() < 0.2})
                           for _ in range(rng.choice((1, 2)))]
        rng.shuffle(inner)
        vs[k] = {"k": "set", "vs": inner}
    args = [rng.choice(ARGS) for _ in range(ar)]
    mode = "synth" if rng.random() < 0.5 else rng.choice(CONC)
    return {"vs": vs, "args": args, "mode": mode}


def nested_family(rng: random.Random, n: int | None) -> list:
    """Sets with a nested overloaded function whose own variants decide: outer = [A, SET(w1, w2), B] (SET at any
    position), arity 1-2; A mostly does not accept, B is a generic catch-all or a non-accepting function."""
    out = []
    for ar in (1, 2):
        for args in itertools.product(ARGS, repeat=ar):
            for w_ps in itertools.product(CONC, repeat=ar):
                out.append((list(args), list(w_ps)))
    rng.shuffle(out)
    if n is not None:
        out = out[:n]
    cases = []
    for args, w_ps in out:
        ar = len(args)
        w1 = fix_decl({"ps": w_ps, "ret": rng.choice(CONC), "decl": False})
        w2 = fix_decl({"ps": [rng.choice(TYS) for _ in range(rng.choice((ar, ar, 3 - ar)))], "ret": rng.choice(TYS), "decl": False})
        inner = [w1, w2] if rng.random() < 0.6 else [w2, w1]
        a = fix_decl({"ps": [rng.choice(CONC) for _ in range(rng.choice((ar, 3 - ar, 0)))], "ret": rng.choice(CONC), "decl": False})
        b = fix_decl({"ps": ["T"] * ar if rng.random() < 0.6 else [rng.choice(TYS) for _ in range(ar)],
                      "ret": rng.choice(("int", "T", "bool")), "decl": False})
        vs = [a, {"k": "set", "vs": inner}, b]
        r = rng.random()
        if r < 0.2:
            vs = vs[1:]
        elif r < 0.4:
            vs = [vs[0], vs[2], vs[1]]
        elif r < 0.5:
            vs = vs[:2]
        mode = "synth" if rng.random() < 0.6 else rng.choice(CONC)
        cases.append({"vs": vs, "args": args, "mode": mode})
    return cases


def outer_family(rng: random.Random, n: int | None) -> list:
    """Nested CALLS h(f(args)): the inner set types an int literal differently per variant ((nat) vs (int) vs
    (float) ...), the outer set's variants expect different argument types, so that earlier outer variants fail on
    the inner call as a whole before a later one succeeds."""
    out = []
    inner_ps = [["nat"], ["int"], ["float"], ["bool"], ["T"], ["nat", "int"], ["int", "nat"], ["nat", "nat"]]
    for a in ([["lpos"], ["lneg"], ["vnat"], ["lpos", "lpos"], ["lpos", "vint"], ["vint"], ["lfloat"]]):
        for p1, p2 in itertools.permutations([p for p in inner_ps if len(p) == len(a)], 2):
            for r1, r2 in itertools.product(("int", "nat", "float", "bool", "T"), repeat=2):
                for ops in itertools.permutations(("float", "bool", "int", "nat", "T"), 2):
                    out.append((a, p1, r1, p2, r2, ops))
    rng.shuffle(out)
    if n is not None:
        out = out[:n]
    cases = []
    for a, p1, r1, p2, r2, ops in out:
        vs = [fix_decl({"ps": list(p1), "ret": r1, "decl": False}), fix_decl({"ps": list(p2), "ret": r2, "decl": False})]
        if rng.random() < 0.3:
            vs.append(fix_decl({"ps": [rng.choice(TYS) for _ in a], "ret": rng.choice(TYS), "decl": False}))
        if rng.random() < 0.2:
            vs = [{"k": "set", "vs": vs[:2]}] + vs[2:] + [fix_decl({"ps": ["T"] * len(a), "ret": "T", "decl": False})]
        os_ = [fix_outer({"p": p, "ret": rng.choice(("int", "float", "T", "bool")), "decl": False}) for p in ops]
        if rng.random() < 0.3:
            os_.append(fix_outer({"p": rng.choice(TYS), "ret": rng.choice(CONC), "decl": False}))
        omode = "synth" if rng.random() < 0.7 else rng.choice(CONC)
        cases.append({"vs": vs, "args": list(a), "mode": "synth", "os": os_, "omode": omode})
    return cases


def fix_outer(o: dict) -> dict:
    if o["ret"] == "T" and o["p"] != "T":
        o["decl"] = True
    return o


def leaves(case: dict) -> list:
    """[(name, fn variant)] in resolution order: v<k> for plain variants, v<k>_<j> inside a nested set."""
    out = []
    for i, v in enumerate(case["vs"], 1):
        if v["k"] == "set":
            out += [(f"v{i}_{j}", w) for j, w in enumerate(v["vs"], 1)]
        else:
            out.append((f"v{i}", v))
    return out


def render(case: dict) -> str:
    """Module with the function variants (v<k>, v<k>_<j>), nested overloaded functions (named v<k> too),
    the overloaded f, main_o (call through f) and main_d_<leaf> (direct call) for every function."""
    L = ['T = guppy.type_var("T")', ""]
    for name, v in leaves(case):
        tag = int(name[1:].replace("_", "0"))
        params = ", ".join(f"p{j}: {t}" for j, t in enumerate(v["ps"], 1))
        if v["decl"]:
            L += ["@guppy.declare", f"def {name}({params}) -> {v['ret']}: ...", ""]
            continue
        L += ["@guppy", f"def {name}({params}) -> {v['ret']}:", f'    result("{name}", {tag})']
        for j, t in enumerate(v["ps"], 1):
            if t != "T":
                L.append(f'    result("{name}.p{j}", p{j})')
        if v["ret"] == "T":
            L.append(f"    return p{v['ps'].index('T') + 1}")
        else:
            L.append("    return " + RET_SRC[v["ret"]].format(i=100 + tag))
        L.append("")
    for i, v in enumerate(case["vs"], 1):
        if v["k"] == "set":
            inner = ", ".join(f"v{i}_{j}" for j in range(1, len(v["vs"]) + 1))
            L += [f"@guppy.overload({inner})", f"def v{i}(): ...", ""]
    names = ", ".join(f"v{i}" for i in range(1, len(case["vs"]) + 1))
    L += [f"@guppy.overload({names})", "def f(): ...", ""]
    args = ", ".join(ARG_SRC[a] for a in case["args"])
    ann = "" if case["mode"] == "synth" else f": {case['mode']}"
    entries = [("main_d_" + name, f"{name}({args})", ann) for name, _ in leaves(case)]
    if case.get("os"):
        # the call is nested in another overloaded call: h(f(args)); w<k> are the outer variants and
        # main_c_<k>_<leaf> the direct compositions w<k>(<leaf>(args))
        for k, o in enumerate(case["os"], 1):
            if o["decl"]:
                L += ["@guppy.declare", f"def w{k}(q: {o['p']}) -> {o['ret']}: ...", ""]
                continue
            L += ["@guppy", f"def w{k}(q: {o['p']}) -> {o['ret']}:", f'    result("w{k}", {k})']
            if o["p"] != "T":
                L.append(f'    result("w{k}.q", q)')
            L.append("    return q" if o["ret"] == "T" else "    return " + RET_SRC[o["ret"]].format(i=500 + k))
            L.append("")
        L += [f"@guppy.overload({', '.join(f'w{k}' for k in range(1, len(case['os']) + 1))})", "def h(): ...", ""]
        oann = "" if case["omode"] == "synth" else f": {case['omode']}"
        entries.insert(0, ("main_o", f"h(f({args}))", oann))
        for k in range(1, len(case["os"]) + 1):
            entries += [(f"main_c_{k}_{name}", f"w{k}({name}({args}))", oann) for name, _ in leaves(case)]
    else:
        entries.insert(0, ("main_o", f"f({args})", ann))
    for entry, call, a in entries:
        L += ["@guppy", f"def {entry}({MAIN_PARAMS}) -> None:", f"    r{a} = {call}", '    result("r", r)', ""]
    return "\n".join(L)
