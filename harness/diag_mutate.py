"""C02: near-miss mutation operators on the AST of a well-typed Guppy program.

mutate(src, rng) -> (new_src, [operator names]) or None.  Operators change one small thing:
an operand's or annotation's type, an assignment (deleted / duplicated / moved), a qubit use,
a call's arity or target, an unsupported syntax node, a bad annotation, a generic misused;
placement operators move the damage into unreachable code, nested functions, loops and
comprehensions.  All choices come from the given random.Random.
"""
from __future__ import annotations

import ast
import copy
import random
import warnings

GLOBAL_NAMES = ["h", "cx", "measure", "discard", "qubit", "array", "range", "len", "int", "float", "bool",
                "result", "panic", "T", "n", "K", "angle", "pi", "some", "nothing", "x", "z", "rz", "nat",
                "measure_array", "discard_array", "abs", "undefined_name", "comptime", "owned", "Option", "guppy"]

ANNOTATIONS = ["int", "float", "bool", "nat", "qubit", "None", "str", "array[int, 3]", "array[qubit, 2]",
               "tuple[int, bool]", "tuple[qubit, int]", "T", "L", "array[T, n]", "Callable[[int], int]",
               "Option[int]", "Option[qubit]", "list[int]", "angle", "qubit @ owned", "int @ owned", "int @ comptime",
               "array[int, n]", "array[int, K]", "array[int, 2] @ owned", "tuple[()]", "tuple[int, ...]"]
BAD_ANNOTATIONS = ['"Foo"', '"int[3]"', '"array[int]"', '"array[int, int]"', '"array[3, int]"', '"1"', '"qubit @ owned @ owned"',
                   '"array[qubit, -1]"', '"Callable[int]"', '"Callable[[int]]"', '"list"', '"x.y"', '"lambda: 0"',
                   '"int | None"', '"array[int, n + 1]"', '"tuple"', '"array"', '"T[int]"', '"n"', '"K"', '"int @ foo"',
                   '"qubit @ comptime"', '"array[int, True]"', '"Option"', '"Option[int, int]"', '"guppy"', '"(int, int)"',
                   '"[int]"', '"int, int"', '""', '"def"', '"array[int, 2][0]"', '"Generic[T]"', '"type[int]"', '"float @ owned"',
                   '"Callable[[qubit @ owned], qubit]"', '"Callable[..., int]"', '"array[array[qubit, 2], 2] @ owned"',
                   '"L @ owned"', '"tuple[L, L]"', '"Box"', '"Point[int]"', '"nat @ comptime"', '"array[int, 18446744073709551616]"']

UNSUPPORTED_STMTS = [
    "global V", "nonlocal V", "del V", "try:\n    V = V\nexcept Exception:\n    pass", "try:\n    pass\nfinally:\n    pass",
    "with V:\n    pass", "with V as w:\n    pass", "import os", "from os import path", "class Inner:\n    pass",
    "raise ValueError()", "assert V", "assert V, 'msg'", "V: int", "V: int = 1", "V: 'Foo' = V",
    "match V:\n    case 1:\n        pass\n    case _:\n        pass", "async def inner() -> None:\n    pass",
    "def inner(a: int = 1) -> int:\n    return a", "def inner(*args: int) -> None:\n    pass",
    "def inner(**kw: int) -> None:\n    pass", "def inner(a: int, /, b: int) -> int:\n    return a",
    "def inner(a: int, *, b: int) -> int:\n    return a", "def inner(a) -> int:\n    return 1", "def inner(a: int):\n    return a",
    "@guppy\ndef inner() -> None:\n    pass", "@V\ndef inner() -> None:\n    pass", "def inner() -> None:\n    yield 1",
    "def inner() -> int:\n    return V\ninner()", "def inner(q: qubit) -> None:\n    h(q)\n", "def inner() -> None:\n    inner()\ninner()",
    "V = lambda: 1", "V += 1", "V -= V", "V @= V", "V, W = V", "V = W = 1", "[V, W] = V, V", "*V, W = 1, 2, 3", "V.foo = 1", "V[0] = V",
    "V[0] += 1", "V[1:2] = V", "(V, V) = (1, 2)", "for V in V:\n    pass", "for V in range(3):\n    pass\nelse:\n    V = 0",
    "while V:\n    pass\nelse:\n    pass", "for i, j in range(3):\n    pass", "for V.foo in range(2):\n    pass", "for V[0] in range(2):\n    pass",
    "while True:\n    pass", "while V:\n    break", "if V:\n    W = 1\nW", "pass", "...", "'docstring'", "V", "V()", "return", "return V", "return V, V",
    "return None", "break", "continue", "async for i in V:\n    pass", "async with V:\n    pass", "await V", "type X = int",
    "if V:\n    def inner() -> int:\n        return 1\nelse:\n    def inner() -> int:\n        return 2\ninner()",
    "V = qubit()", "h(qubit())", "measure(V)", "discard(V)", "q_new = qubit()\nq_new2 = q_new\nh(q_new)\ndiscard(q_new2)",
    "qs_new = array(qubit() for _ in range(2))", "qs_new = array(qubit(), qubit())\ndiscard(qs_new[0])", "result('t', V)", "result(V, 1)", "panic('boom')",
    "panic(V)", "panic('m', V, qubit())", "V = comptime(undefined_python_name)", "V = comptime(1 / 0)", "V = comptime([1, 'a'])",
    "V = comptime(K)", "V = comptime({})", "V = comptime(lambda: 0)", "V = comptime(V)", "V = py(1)", "V = array()", "V = array(1, True)",
    "V = (V for V in range(3))", "V = array(V for V in V)", "V = [i for i in range(3)]", "V = {i for i in range(3)}", "V = {i: i for i in range(3)}",
    "V = array(i for i in range(V))", "V = array(a for a in range(2) for b in range(2))", "V = array(i for i in range(3) if i > 1)",
    "V = array(q for q in array(qubit(), qubit()))", "V = array(h(V) for _ in range(2))", "V = array(qubit() for _ in range(K))",
    "with dagger:\n    pass", "with control(V):\n    pass", "with power(2):\n    h(V)", "with dagger, control(V):\n    return", "with control():\n    pass",
    "with control(V,\n             V), dagger:\n    return", "_t = array(ident, ident)", "_t = ident(ident)", "_t = ident(ident)(1)",
    "_t = array(ident for _ in range(2))", "_t = array(V, V)", "_t = V(V)", "_t = first((V, V))", "_t = some(V)", "_t = 1e999", "_t = -1e999",
    "_t = array(i async for i in range(2))", "_t = [V async for _ in V]", "'doc'\n'doc'", "_t = V if V else V", "_t = (V, V)[0]", "with dagger():\n    break", "with power(1, 2):\n    pass", "with dagger as d:\n    pass",
]

UNSUPPORTED_EXPRS = [
    "lambda: 1", "lambda a: a", "{1: 2}", "{1, 2}", "[1, 2]", "[]", "()", "f'{V}'", "f'a'", "b'ab'", "1j", "...", "None", "'str'", "''",
    "(yield)", "(yield V)", "(await V)", "(V := 1)", "V[1:2]", "V[::2]", "V[0]", "V[-1]", "V[100]", "V[V]", "V[0][0]", "V.foo", "V.x", "V.real", "V.__class__",
    "V()", "V(1)", "V(V=1)", "V(*V)", "V(**V)", "V[int]", "V[int](1)", "V if V else V", "not V", "-V", "~V", "+V", "V and V", "V or 1", "V < V < V",
    "V is V", "V is not None", "V in V", "V not in V", "V == V", "V @ V", "V ** V", "V // 0", "V % 0", "V << 70", "V >> -1", "1 / 0", "V + 1.5", "V + True", "V + 'a'",
    "(V, V)", "(V,)", "(V, (V, V))", "*V", "array(V)", "array(V, V)", "array(V, 1.5)", "array()", "[V for _ in range(2)]", "array(V for _ in range(2))",
    "array(V for _ in range(2))[0]", "array(array(V for _ in range(2)) for _ in range(2))", "array(V for i in range(2) if i > 0)", "(V for _ in range(2))",
    "len(V)", "int(V)", "float(V)", "bool(V)", "nat(V)", "abs(V)", "str(V)", "range(V)", "range(1, 2, 3, 4)", "range()", "tuple(V)", "list(V)", "print(V)", "type(V)",
    "isinstance(V, int)", "callable(V)", "some(V)", "nothing()", "some(V).unwrap()", "V.unwrap()", "V.copy()", "qubit()", "measure(V)", "measure(qubit())", "h(V)",
    "discard(V)", "comptime(1)", "comptime(V)", "comptime('s')", "comptime(1.5)", "comptime(None)", "comptime(K + 1)", "comptime([])", "comptime((1, 2.0))",
    "comptime([[1], [2, 3]])", "comptime(2 ** 70)", "comptime(-1)", "comptime(guppy)", "comptime(K)(1)", "9223372036854775808", "-9223372036854775809",
    "18446744073709551616", "1e400", "0.0", "True", "pi", "angle(V)", "V.measure()", "qubit().measure()", "ident(V)", "ident[int](V)", "ident[int, int](V)",
    "ident[qubit](V)", "head(V)", "head[int](V)", "head[int, 2](V)", "head[int, n](V)", "keep(V)", "first(V)", "twice(V, 1)", "twice(lambda a: a, 1)", "inc", "main",
    "main()", "main(V)", "Box(V, 1)", "Box[int](V, 1)", "Box[qubit](V, 1)", "Point(V)", "Point(1, 2, 3)", "Point(x=1, y=2)", "Point", "Point.x", "Counter.bump",
    "Counter(1, 2).bump()", "Counter(1, 2).nope()", "T", "n", "K", "int", "qubit", "array", "guppy", "owned", "T(1)", "n + 1", "undefined_name", "undefined_fn(V)",
]

CONSTS = [0, 1, -1, 3, 2.5, 0.0, True, False, None, "s", 2 ** 63, 2 ** 64, -(2 ** 63) - 1, 10 ** 30]


class Sites:
    """All nodes of a module with their location (parent, field, index), function context."""

    def __init__(self, tree):
        self.tree = tree
        self.stmts = []   # (body list owner, field, idx, enclosing function or class)
        self.exprs = []   # (parent, field, idx|None, node, fn)
        self.annots = []  # (parent, field, node, top_level: bool)
        self.funcs = []   # (funcdef, depth)
        self.classes = []
        self._walk(tree, None, 0)

    def _walk(self, node, fn, depth):
        for field, value in ast.iter_fields(node):
            if isinstance(value, list):
                for i, v in enumerate(value):
                    if isinstance(v, ast.stmt) and field in ("body", "orelse", "finalbody") and not isinstance(node, ast.Module):
                        self.stmts.append((node, field, i, fn))
                    if isinstance(v, ast.AST):
                        self._visit(node, field, i, v, fn, depth)
            elif isinstance(value, ast.AST):
                self._visit(node, field, None, value, fn, depth)

    def _visit(self, parent, field, idx, v, fn, depth):
        is_annot = (field in ("annotation", "returns"))
        if is_annot:
            self.annots.append((parent, field, v, depth <= 1 and not isinstance(parent, ast.AnnAssign) or isinstance(fn, ast.ClassDef)))
            return
        if isinstance(v, ast.expr) and fn is not None and field not in ("decorator_list", "bases", "keywords") \
                and not isinstance(v, ast.expr_context):
            if not (isinstance(parent, (ast.FunctionDef, ast.ClassDef))):
                self.exprs.append((parent, field, idx, v, fn))
        if isinstance(v, (ast.FunctionDef, ast.AsyncFunctionDef)):
            self.funcs.append((v, depth))
            self._walk(v, v, depth + 1)
        elif isinstance(v, ast.ClassDef):
            self.classes.append(v)
            self._walk(v, v, depth + 1)
        else:
            self._walk(v, fn, depth)


def _set(parent, field, idx, new):
    if idx is None:
        setattr(parent, field, new)
    else:
        getattr(parent, field)[idx] = new


def _names_in(fn):
    out = []
    for n in ast.walk(fn):
        if isinstance(n, ast.Name):
            out.append(n.id)
        elif isinstance(n, ast.arg):
            out.append(n.arg)
    return sorted(set(out))


def _module_defs(tree):
    return [n.name for n in tree.body if isinstance(n, (ast.FunctionDef, ast.ClassDef))]


def _pick_name(rng, sites, fn, prefer_local=0.75):
    local = _names_in(fn) if fn is not None else []
    if local and rng.random() < prefer_local:
        return rng.choice(local)
    return rng.choice(GLOBAL_NAMES + _module_defs(sites.tree))


def _fill(text, rng, sites, fn):
    v, w = _pick_name(rng, sites, fn), _pick_name(rng, sites, fn)
    return text.replace("V", "\0").replace("W", "\1").replace("\0", v).replace("\1", w)


def _parse_stmts(text):
    return ast.parse(text).body


def _parse_expr(text):
    return ast.parse(text, mode="eval").body


# ---- operators: each returns True when it changed the tree ------------------------------
def op_delete_stmt(rng, s):
    c = [x for x in s.stmts if not isinstance(getattr(x[0], x[1])[x[2]], (ast.FunctionDef, ast.ClassDef)) or x[3] is not None]
    if not c:
        return False
    owner, field, i, _ = rng.choice(c)
    body = getattr(owner, field)
    del body[i]
    if not body and field == "body":
        body.append(ast.Pass())
    return True


def op_dup_stmt(rng, s):
    if not s.stmts:
        return False
    owner, field, i, _ = rng.choice(s.stmts)
    body = getattr(owner, field)
    body.insert(i + rng.choice([0, 1]), copy.deepcopy(body[i]))
    return True


def op_move_stmt(rng, s):
    c = [x for x in s.stmts if len(getattr(x[0], x[1])) >= 2]
    if not c:
        return False
    owner, field, i, _ = rng.choice(c)
    body = getattr(owner, field)
    st = body.pop(i)
    body.insert(rng.randrange(len(body) + 1), st)
    return True


def op_insert_stmt(rng, s):
    if not s.stmts:
        return False
    owner, field, i, fn = rng.choice(s.stmts)
    try:
        new = _parse_stmts(_fill(rng.choice(UNSUPPORTED_STMTS), rng, s, fn))
    except SyntaxError:
        return False
    body = getattr(owner, field)
    pos = i + rng.choice([0, 1])
    body[pos:pos] = new
    return True


def op_early_exit(rng, s):
    fns = [f for f, d in s.funcs if len(f.body) >= 2]
    if not fns:
        return False
    fn = rng.choice(fns)
    rets = [n for n in ast.walk(fn) if isinstance(n, ast.Return)]
    kind = rng.random()
    if rets and kind < 0.6:
        new = copy.deepcopy(rng.choice(rets))
    elif kind < 0.8:
        new = _parse_stmts("while True:\n    pass")[0]
    else:
        new = _parse_stmts("panic('stop')")[0]
    fn.body.insert(rng.randrange(len(fn.body)), new)
    return True


def op_wrap_stmt(rng, s):
    c = [x for x in s.stmts if x[3] is not None and not isinstance(x[3], ast.ClassDef)]
    if not c:
        return False
    owner, field, i, fn = rng.choice(c)
    body = getattr(owner, field)
    j = min(len(body), i + rng.choice([1, 1, 2, 3]))
    chunk = body[i:j]
    v = _pick_name(rng, s, fn)
    kind = rng.choice(["nested", "nested_ret", "if", "ifelse", "while", "for", "for_qubit", "if_const", "with"])
    if kind == "nested":
        new = _parse_stmts("def _inner() -> None:\n    pass\n_inner()")
        new[0].body = chunk
    elif kind == "nested_ret":
        new = _parse_stmts(f"def _inner({v}: int) -> int:\n    pass\n{v} = _inner({v})")
        new[0].body = chunk + _parse_stmts(f"return {v}")
    elif kind == "if":
        new = _parse_stmts(f"if {v}:\n    pass")
        new[0].body = chunk
    elif kind == "ifelse":
        new = _parse_stmts(f"if {v} > 0:\n    pass\nelse:\n    pass")
        new[0].body = chunk
        new[0].orelse = copy.deepcopy(chunk) if rng.random() < 0.5 else [ast.Pass()]
    elif kind == "while":
        new = _parse_stmts(f"while {v}:\n    pass")
        new[0].body = chunk
    elif kind == "for":
        new = _parse_stmts("for _k in range(2):\n    pass")
        new[0].body = chunk
    elif kind == "for_qubit":
        new = _parse_stmts("for _q in array(qubit(), qubit()):\n    pass")
        new[0].body = chunk
    elif kind == "if_const":
        new = _parse_stmts("if False:\n    pass")
        new[0].body = chunk
    else:
        new = _parse_stmts("with dagger:\n    pass")
        new[0].body = chunk
    body[i:j] = new
    return True


def op_const(rng, s):
    c = [x for x in s.exprs if isinstance(x[3], ast.Constant)]
    if not c:
        return False
    parent, field, idx, node, _ = rng.choice(c)
    vals = [v for v in CONSTS if type(v) is not type(node.value) or rng.random() < 0.2]
    _set(parent, field, idx, ast.Constant(rng.choice(vals)))
    return True


def op_name(rng, s):
    c = [x for x in s.exprs if isinstance(x[3], ast.Name) and isinstance(x[3].ctx, ast.Load)]
    if not c:
        return False
    parent, field, idx, node, fn = rng.choice(c)
    new = _pick_name(rng, s, fn, 0.7)
    if new == node.id:
        new = "undefined_name"
    _set(parent, field, idx, ast.Name(new, ast.Load()))
    return True


def op_store_name(rng, s):
    c = [n for f, _ in s.funcs for n in ast.walk(f) if isinstance(n, ast.Name) and isinstance(n.ctx, ast.Store)]
    if not c:
        return False
    node = rng.choice(c)
    node.id = rng.choice([x.id for x in c] + ["_fresh", "int", "qubit", "h"])
    return True


def op_expr(rng, s):
    c = [x for x in s.exprs if not isinstance(getattr(x[3], "ctx", None), (ast.Store, ast.Del))]
    if not c:
        return False
    parent, field, idx, node, fn = rng.choice(c)
    if isinstance(parent, (ast.withitem, ast.comprehension)) and field in ("optional_vars", "target"):
        return False
    try:
        new = _parse_expr(_fill(rng.choice(UNSUPPORTED_EXPRS), rng, s, fn))
    except SyntaxError:
        return False
    if rng.random() < 0.3:
        # keep the original as a sub-expression: V stands for the old expression
        for n in ast.walk(new):
            for f2, v2 in ast.iter_fields(n):
                if isinstance(v2, ast.Name) and rng.random() < 0.5:
                    setattr(n, f2, copy.deepcopy(node))
                    break
    _set(parent, field, idx, new)
    return True


def op_call(rng, s):
    c = [x for x in s.exprs if isinstance(x[3], ast.Call)]
    if not c:
        return False
    _, _, _, call, fn = rng.choice(c)
    kind = rng.choice(["drop", "add", "dup", "kw", "star", "target", "swap", "nest", "dstar"])
    if kind == "drop" and call.args:
        del call.args[rng.randrange(len(call.args))]
    elif kind == "add":
        call.args.insert(rng.randrange(len(call.args) + 1), ast.Name(_pick_name(rng, s, fn), ast.Load()))
    elif kind == "dup" and call.args:
        call.args.append(copy.deepcopy(rng.choice(call.args)))
    elif kind == "kw":
        call.keywords.append(ast.keyword(rng.choice(["x", "q", "value", "tag"]), ast.Constant(1)))
    elif kind == "star" and call.args:
        i = rng.randrange(len(call.args))
        call.args[i] = ast.Starred(call.args[i], ast.Load())
    elif kind == "dstar":
        call.keywords.append(ast.keyword(None, ast.Name(_pick_name(rng, s, fn), ast.Load())))
    elif kind == "target":
        call.func = ast.Name(_pick_name(rng, s, fn, 0.2), ast.Load())
    elif kind == "swap" and len(call.args) >= 2:
        call.args.reverse()
    elif kind == "nest" and call.args:
        i = rng.randrange(len(call.args))
        call.args[i] = ast.Call(copy.deepcopy(call.func), [call.args[i]], [])
    else:
        return False
    return True


BINOPS = [ast.Add, ast.Sub, ast.Mult, ast.Div, ast.FloorDiv, ast.Mod, ast.Pow, ast.LShift, ast.RShift, ast.BitOr,
          ast.BitXor, ast.BitAnd, ast.MatMult]
CMPOPS = [ast.Eq, ast.NotEq, ast.Lt, ast.LtE, ast.Gt, ast.GtE, ast.Is, ast.IsNot, ast.In, ast.NotIn]


def op_operator(rng, s):
    c = [x[3] for x in s.exprs if isinstance(x[3], (ast.BinOp, ast.Compare, ast.BoolOp, ast.UnaryOp))]
    c += [n for f, _ in s.funcs for n in ast.walk(f) if isinstance(n, ast.AugAssign)]
    if not c:
        return False
    n = rng.choice(c)
    if isinstance(n, (ast.BinOp, ast.AugAssign)):
        n.op = rng.choice(BINOPS)()
    elif isinstance(n, ast.Compare):
        if rng.random() < 0.3:
            n.ops.append(rng.choice(CMPOPS)())
            n.comparators.append(copy.deepcopy(n.left))
        else:
            n.ops[0] = rng.choice(CMPOPS)()
    elif isinstance(n, ast.BoolOp):
        n.op = ast.Or() if isinstance(n.op, ast.And) else ast.And()
        n.values.append(ast.Constant(rng.choice([1, None, 2.5])))
    else:
        n.op = rng.choice([ast.Not, ast.USub, ast.Invert, ast.UAdd])()
    return True


def op_annotation(rng, s):
    if not s.annots:
        return False
    parent, field, node, top = rng.choice(s.annots)
    r = rng.random()
    if r < 0.12:
        if isinstance(parent, ast.AnnAssign):
            return False
        setattr(parent, field, None)  # annotation removed
        return True
    if r < 0.55:
        text = rng.choice(ANNOTATIONS)
        if top and rng.random() < 0.15:
            text = repr(text)  # also exercise string annotations
    else:
        text = rng.choice(BAD_ANNOTATIONS)
        if not top and rng.random() < 0.5:
            text = text[1:-1] or '""'  # nested definitions: Python never evaluates the annotation
    if r > 0.9:
        old = ast.unparse(node)
        text = rng.choice([f"{old} @ owned", f"{old} @ comptime", f"array[{old}, 2]", f"tuple[{old}, {old}]", f"Option[{old}]",
                           f"Callable[[{old}], {old}]", f"{old} @ owned @ owned", f"array[{old}, n]", f"'{old}'"])
    try:
        setattr(parent, field, _parse_expr(text))
    except SyntaxError:
        return False
    return True


def op_signature(rng, s):
    if not s.funcs:
        return False
    fn, depth = rng.choice(s.funcs)
    kind = rng.choice(["default", "vararg", "kwarg", "kwonly", "posonly", "addparam", "dropparam", "dupparam", "async",
                       "decl", "rename_param", "docstring", "noreturn", "swap_params", "self"])
    a = fn.args
    if kind == "default" and a.args:
        a.defaults = [ast.Constant(1)]
    elif kind == "vararg":
        a.vararg = ast.arg("rest", ast.Name("int", ast.Load()))
    elif kind == "kwarg":
        a.kwarg = ast.arg("kw", ast.Name("int", ast.Load()))
    elif kind == "kwonly":
        a.kwonlyargs.append(ast.arg("ko", ast.Name("int", ast.Load())))
        a.kw_defaults.append(None)
    elif kind == "posonly" and a.args:
        a.posonlyargs.append(a.args.pop(0))
    elif kind == "addparam":
        a.args.insert(rng.randrange(len(a.args) + 1), ast.arg("extra", _parse_expr(rng.choice(ANNOTATIONS[:12]))))
    elif kind == "dropparam" and a.args:
        del a.args[rng.randrange(len(a.args))]
    elif kind == "dupparam" and a.args:
        a.args.append(copy.deepcopy(a.args[0]))  # SyntaxError at compile -> skipped
    elif kind == "async" and depth >= 1:
        new = ast.AsyncFunctionDef(**{f: getattr(fn, f) for f in fn._fields if hasattr(fn, f)})
        for owner, field, i, _ in s.stmts:
            if getattr(owner, field)[i] is fn:
                getattr(owner, field)[i] = new
                return True
        return False
    elif kind == "decl" and depth == 0:
        fn.decorator_list = [_parse_expr("guppy.declare")]
    elif kind == "rename_param" and a.args:
        a.args[rng.randrange(len(a.args))].arg = rng.choice(["self", "int", "qubit", "_", a.args[0].arg])
    elif kind == "docstring":
        fn.body.insert(rng.randrange(len(fn.body) + 1), ast.Expr(ast.Constant("doc")))
    elif kind == "noreturn":
        fn.body = [b for b in fn.body if not isinstance(b, ast.Return)] or [ast.Pass()]
    elif kind == "swap_params" and len(a.args) >= 2:
        a.args.reverse()
    elif kind == "self" and a.args:
        a.args[0].annotation = None
    else:
        return False
    return True


def op_struct(rng, s):
    if not s.classes:
        return False
    cl = rng.choice(s.classes)
    kind = rng.choice(["default", "dupfield", "method", "base", "nofields", "expr", "field_annot", "generic", "classvar"])
    fields = [b for b in cl.body if isinstance(b, ast.AnnAssign)]
    if kind == "default" and fields:
        rng.choice(fields).value = ast.Constant(1)
    elif kind == "dupfield" and fields:
        cl.body.append(copy.deepcopy(fields[0]))
    elif kind == "method":
        cl.body += _parse_stmts(rng.choice([
            "def plain(self: 'int') -> int:\n    return 1", "@guppy\ndef m(self: 'qubit') -> None:\n    pass",
            "@guppy\ndef m() -> int:\n    return 1", "@guppy\ndef m(self) -> int:\n    return 1",
            "@guppy\ndef __add__(self: 'int', o: 'int') -> 'int':\n    return self", "@guppy\ndef m(self: 'T') -> 'T':\n    return self",
            "@staticmethod\ndef sm() -> int:\n    return 1", "@property\ndef p(self) -> int:\n    return 1"]))
    elif kind == "base":
        cl.bases.append(_parse_expr(rng.choice(["object", "Generic[T]", "Generic[U]", "Generic[T, T]", "Generic[n]", "int", "Generic[int]"])))
    elif kind == "nofields":
        cl.body = [ast.Pass()]
    elif kind == "expr":
        cl.body.insert(0, _parse_stmts(rng.choice(["x = 1", "1 + 1", "print(1)", "def f(): pass", "x, y = 1, 2", "if True:\n    z: int"]))[0])
    elif kind == "field_annot" and fields:
        rng.choice(fields).annotation = _parse_expr(rng.choice(ANNOTATIONS + BAD_ANNOTATIONS))
    elif kind == "generic":
        cl.bases = [_parse_expr(rng.choice(["Generic[T]", "Generic[U, T]", "Generic[L]", "Generic[n]"]))]
    elif kind == "classvar" and fields:
        rng.choice(fields).target = ast.Name(rng.choice(["self", "__init__", "x", "int"]), ast.Store())
    else:
        return False
    return True


OPS = [(op_delete_stmt, 8), (op_dup_stmt, 8), (op_move_stmt, 5), (op_insert_stmt, 16), (op_early_exit, 5), (op_wrap_stmt, 9),
       (op_const, 6), (op_name, 10), (op_store_name, 4), (op_expr, 18), (op_call, 9), (op_operator, 5), (op_annotation, 12),
       (op_signature, 6), (op_struct, 4)]


def mutate(src: str, rng: random.Random, max_ops: int = 3):
    tree = ast.parse(src)
    names = []
    nops = rng.choice([1, 1, 1, 2, 2, 3][:max(1, 2 * max_ops)])
    for _ in range(12):
        if len(names) >= nops:
            break
        sites = Sites(tree)
        op = rng.choices([o for o, _ in OPS], [w for _, w in OPS])[0]
        try:
            if op(rng, sites):
                names.append(op.__name__[3:])
        except (IndexError, ValueError, AttributeError, TypeError):
            return None
    if not names:
        return None
    try:
        ast.fix_missing_locations(tree)
        out = ast.unparse(tree) + "\n"
        with warnings.catch_warnings():
            warnings.simplefilter("ignore")
            compile(out, "<mutant>", "exec")
    except (SyntaxError, ValueError, RecursionError, TypeError, AttributeError):
        return None
    if out.strip() == ast.unparse(ast.parse(src)).strip():
        return None
    if rng.random() < 0.25:
        out2 = linebreak(out, rng)
        if out2 is not None:
            out, names = out2, names + ["linebreak"]
    return out, names


def linebreak(text: str, rng: random.Random):
    """Text-level placement: continue a bracketed expression on the next line (ast.unparse puts
    every statement on one line, so multi-line spans would otherwise never occur)."""
    spots = [i for i in range(len(text) - 1) if text[i] == "," and text[i + 1] == " "]
    rng.shuffle(spots)
    for i in spots[:8]:
        start = text.rfind("\n", 0, i) + 1
        line = text[start:i]
        if line.lstrip().startswith(("def ", "@", "class ")) and rng.random() < 0.7:
            continue
        pad = " " * rng.choice([0, 2, len(line) - len(line.lstrip()) + 4, min(len(line), 40)])
        cand = text[:i + 1] + "\n" + pad + text[i + 2:]
        try:
            with warnings.catch_warnings():
                warnings.simplefilter("ignore")
                compile(cand, "<mutant>", "exec")
            if ast.dump(ast.parse(cand)) == ast.dump(ast.parse(text)):
                return cand
        except (SyntaxError, ValueError):
            continue
    return None
