"""C02: hand-written near-miss programs (one mistake or one unusual construct each), run in
both tiers with and without experimental features in addition to the random mutation campaign.
Each line is the text of `main` (\\n = newline); it is compiled behind the prelude of
diag_seeds (helper definitions ident/head/keep/first/inc/twice/Box/Point/Counter) and PRE below.
"""

PRE = "@guppy.struct\nclass Pair2:\n    a: qubit\n    b: qubit\n\n"

_P = r'''
def main(q: qubit @ owned) -> None:\n    del q
def main(x: int) -> int:\n    x: float = 1.0\n    return x
def main(x: int) -> int:\n    y: int\n    return x
def main(xs: array[int, 3]) -> int:\n    a, *b = xs\n    return a
def main(xs: array[int, 3]) -> int:\n    *a, = xs\n    return 1
def main(x: tuple[int, int, int]) -> int:\n    a, *b, c = x\n    return a
def main(x: tuple[int, int]) -> int:\n    a, *b, c, d = x\n    return a
def main(x: int) -> int:\n    [a, b] = (x, x)\n    return a
def main(x: int) -> int:\n    (a, b), c = (x, x), x\n    return a
def main(x: int) -> int:\n    a, b = x\n    return a
def main(x: int) -> int:\n    for a, b in range(3):\n        pass\n    return x
def main(x: int) -> int:\n    for x.y in range(3):\n        pass\n    return 1
def main(xs: array[int, 3] @ owned) -> int:\n    for xs[0] in range(3):\n        pass\n    return 1
def main(x: int) -> int:\n    x.y = 1\n    return x
def main(x: int) -> int:\n    x[0] = 1\n    return x
def main(x: int) -> int:\n    x.y += 1\n    return x
def main(xs: array[int, 3]) -> None:\n    xs[0], xs[1] = xs[1], xs[0]
def main(xs: array[qubit, 3]) -> None:\n    xs[0], xs[1] = xs[1], xs[0]
def main(xs: array[qubit, 3]) -> None:\n    cx(xs[0], xs[0])
def main(xs: array[array[qubit, 2], 2]) -> None:\n    cx(xs[0][0], xs[0][1])
def main(xs: array[qubit, 3], i: int) -> None:\n    cx(xs[i], xs[i + 1])
def main(xs: array[qubit, 3]) -> None:\n    q = xs[0]\n    h(q)
def main(xs: array[qubit, 3] @ owned) -> qubit:\n    return xs[0]
def main(p: Point) -> int:\n    p.x = 3\n    return p.x
def main(p: Point) -> int:\n    p.z = 3\n    return p.x
def main(p: Point @ owned) -> Point:\n    p.x += 1\n    return p
def main() -> None:\n    Point.x = 1
def main() -> int:\n    return Point(1, 2).x
def main() -> int:\n    Point(1, 2).x = 3\n    return 1
def main() -> None:\n    qubit().x = 3
def main(b: Box[qubit] @ owned) -> qubit:\n    return b.item
def main(b: Box[qubit]) -> None:\n    h(b.item)\n    b.item = qubit()
def main() -> None:\n    f = h\n    f(qubit())
def main() -> None:\n    f = ident\n    f(1)
def main() -> None:\n    f = ident[int]\n    f(1)
def main() -> None:\n    fs = array(inc, inc)\n    fs[0](1)
def main() -> None:\n    fs = (ident, ident)
def main() -> None:\n    fs = array(ident, ident)
def main() -> None:\n    fs = array(ident for _ in range(2))
def main() -> None:\n    fs = [ident for _ in range(2)]
def main() -> None:\n    x = ident(ident)
def main() -> None:\n    x = ident(ident)(1)
def main() -> None:\n    x = twice(ident, 1)
def main() -> None:\n    x = twice(head, 1)
def main() -> None:\n    x = some(ident)
def main() -> None:\n    x = Box(ident, 1)
def main() -> None:\n    x = Box(Box, 1)
def main() -> None:\n    x = Box(Point, 1)
def main() -> None:\n    x = (Point, qubit)
def main() -> None:\n    x = qubit\n    y = x()\n    discard(y)
def main() -> None:\n    x = array\n    y = x(1, 2)
def main() -> None:\n    x = range\n    for i in x(3):\n        pass
def main() -> None:\n    x = result\n    x("a", 1)
def main() -> None:\n    x = panic\n    x("a")
def main() -> None:\n    x = comptime\n    y = x(1)
def main() -> None:\n    x = owned
def main() -> None:\n    x = T
def main() -> None:\n    x = n
def main() -> None:\n    x = guppy
def main() -> None:\n    x = Generic
def main() -> None:\n    x = Callable
def main() -> int:\n    return n
def main(xs: array[int, n]) -> int:\n    return n + 1
def main(xs: array[int, n]) -> array[int, n]:\n    return array(i for i in range(n))
def main(xs: array[int, n]) -> int:\n    ys = array(0 for _ in range(n))\n    return ys[0]
def main(x: T) -> T:\n    y: T = x\n    return y
def main(x: T) -> int:\n    def f(y: T) -> T:\n        return y\n    return 1
def main(x: int) -> int:\n    def f(y: U) -> U:\n        return y\n    return f(x)
def main(x: int) -> int:\n    def f(y: "U") -> "U":\n        return y\n    return f(x)
def main(x: int) -> int:\n    def f(y: array[int, n]) -> int:\n        return n\n    return f(array(1, 2))
def main(x: int) -> int:\n    def f() -> int:\n        return f()\n    return f()
def main(x: int) -> int:\n    def f() -> int:\n        return g()\n    def g() -> int:\n        return f()\n    return f()
def main(x: int) -> int:\n    def f(x: int) -> int:\n        return x\n    f = 1\n    return f
def main(x: int) -> int:\n    if x:\n        def f() -> int:\n            return 1\n    else:\n        def f() -> float:\n            return 1.0\n    return 1
def main(x: int) -> int:\n    if x:\n        def f() -> int:\n            return 1\n    return f()
def main(q: qubit @ owned) -> None:\n    def f() -> None:\n        h(q)\n    f()\n    discard(q)
def main(q: qubit @ owned) -> qubit:\n    def f() -> qubit:\n        return q\n    return f()
def main(x: int) -> int:\n    def f() -> int:\n        x = 1\n        return x\n    return f()
def main(x: int) -> int:\n    def f() -> int:\n        x += 1\n        return x\n    return f()
def main(x: int) -> int:\n    def f() -> int:\n        return y\n    y = 1\n    return f()
def main(x: int) -> int:\n    while True:\n        def f() -> int:\n            return x\n        x = f()\n    return x
def main(x: int) -> Callable[[int], int]:\n    def f(y: int) -> int:\n        return x + y\n    return f
def main(x: int) -> Callable[[], int]:\n    return main
def main(x: int) -> int:\n    return main(x)(x)
def main(x: int) -> int:\n    return (lambda: x)()
def main(x: int) -> int:\n    return x if x else x.y
def main(x: int) -> int:\n    return 1 if qubit() else 2
def main(x: int) -> int:\n    return [1, 2][0]
def main(x: int) -> int:\n    return (1, 2)[x]
def main(x: int) -> int:\n    return (1, 2)[2]
def main(x: int) -> int:\n    return (1, 2)[-1]
def main(x: int) -> int:\n    return (1, 2)[True]
def main(x: int) -> int:\n    return (1, 2)[0:1]
def main(x: int) -> int:\n    return ()[0]
def main(x: int) -> int:\n    t = ()\n    return x
def main(x: int) -> tuple[()]:\n    return ()
def main(x: int) -> tuple[int]:\n    return (x,)
def main(x: int) -> int:\n    return array(1, 2)[x:]
def main(x: int) -> int:\n    return array(1, 2)[0, 1]
def main(x: int) -> int:\n    return array(1, 2)[qubit()]
def main(x: int) -> int:\n    return array(1, 2)[1.5]
def main(x: int) -> int:\n    return x[0]
def main(x: int) -> int:\n    return main[0]
def main(x: int) -> int:\n    return main[int](x)
def main(x: int) -> int:\n    return ident[int][int](x)
def main(x: int) -> int:\n    return ident[n](x)
def main(x: int) -> int:\n    return ident[3](x)
def main(x: int) -> int:\n    return head[int, 3.5](array(1))
def main(x: int) -> int:\n    return head[int, -1](array(1))
def main(x: int) -> int:\n    return head[3, int](array(1))
def main(x: int) -> int:\n    return head[qubit, 1](array(1))
def main(x: int) -> int:\n    return head["int", 1](array(1))
def main(x: int) -> int:\n    return head[array[int, 2], 1](array(array(1, 2)))[0]
def main(x: int) -> int:\n    return head[Callable[[int], int], 1](array(inc))(x)
def main(x: int) -> int:\n    return ident[Callable[[T], T]](ident)(x)
def main(x: int) -> int:\n    return ident[tuple[int, ...]](x)
def main(x: int) -> int:\n    return Box[int](x, 1).item
def main(x: int) -> int:\n    return Box[int, int](x, 1).item
def main(x: int) -> int:\n    return Point[int](x, 1).x
def main(x: int) -> int:\n    return Counter(1, 2).bump().bump().n
def main(x: int) -> int:\n    return Counter.bump(Counter(1, 2)).n
def main(x: int) -> int:\n    f = Counter(1, 2).bump\n    return f().n
def main(x: int) -> int:\n    return Counter(1, 2).n()
def main(x: int) -> int:\n    return x.__add__(1)
def main(x: int) -> int:\n    return int.__add__(x, 1)
def main(x: int) -> int:\n    return x.__class__
def main(x: int) -> int:\n    return x + 1 if x else None
def main(x: int) -> None:\n    return None if x else None
def main(x: int) -> int:\n    return not x
def main(x: int) -> bool:\n    return not qubit()
def main(x: int) -> bool:\n    return x and qubit()
def main(x: int) -> bool:\n    return x < 1 < qubit()
def main(x: int) -> bool:\n    return 1 < x < 2 < 3.5
def main(x: int) -> bool:\n    return x is None
def main(x: int) -> bool:\n    return x in array(1, 2)
def main(x: int) -> int:\n    return -qubit()
def main(x: int) -> int:\n    return ~x + +x
def main(x: int) -> int:\n    return x @ x
def main(x: int) -> float:\n    return x ** -1
def main(x: int) -> int:\n    return x // 0
def main(x: int) -> int:\n    return 1 << 64
def main(x: int) -> int:\n    return 9223372036854775808
def main(x: int) -> int:\n    return -9223372036854775808
def main(x: int) -> int:\n    return -9223372036854775809
def main(x: int) -> nat:\n    return -1
def main(x: int) -> nat:\n    return 18446744073709551616
def main(x: int) -> float:\n    return 1e999
def main(x: int) -> float:\n    return 1j
def main(x: int) -> int:\n    return comptime(2**64)
def main(x: int) -> int:\n    return comptime(-2**63 - 1)
def main(x: int) -> float:\n    return comptime(float("nan"))
def main(x: int) -> float:\n    return comptime(float("inf"))
def main(x: int) -> int:\n    return comptime([1, 2.5])[0]
def main(x: int) -> int:\n    return comptime([])[0]
def main(x: int) -> int:\n    return comptime([[1], [2, 3]])[0][0]
def main(x: int) -> int:\n    return comptime((1, [2]))[0]
def main(x: int) -> int:\n    return comptime({"a": 1})
def main(x: int) -> int:\n    return comptime(x)
def main(x: int) -> int:\n    return comptime(K, K)
def main(x: int) -> int:\n    return comptime()
def main(x: int) -> int:\n    return comptime(k=1)
def main(x: int) -> int:\n    return comptime(ident)(x)
def main(x: int) -> int:\n    return comptime(main)(x)
def main(x: int) -> int:\n    return comptime(Point)(1, 2).x
def main(x: int) -> int:\n    return comptime(Point(1, 2)).x
def main(x: int) -> int:\n    return comptime(qubit())
def main(x: int) -> int:\n    return comptime(print)
def main(x: int) -> int:\n    return comptime(T)
def main(x: int) -> int:\n    return comptime(n)
def main(x: int) -> int:\n    return comptime(array(1, 2))[0]
def main(x: int) -> int:\n    return comptime(True) + 1
def main(x: int) -> str:\n    return comptime("a" + "b")
def main(x: int) -> None:\n    result(comptime("t"), x)
def main(x: int) -> None:\n    result("t" + "u", x)
def main(x: int) -> None:\n    result("t", qubit())
def main(x: int) -> None:\n    result("t", (1, 2))
def main(x: int) -> None:\n    result("t", array(array(1)))
def main(x: int) -> None:\n    result("t", array(qubit()))
def main(x: int) -> None:\n    result("t" * 300, x)
def main(x: int) -> None:\n    result("", x)
def main(x: int) -> None:\n    result()
def main(x: int) -> None:\n    result("t")
def main(x: int) -> None:\n    result(tag="t", value=x)
def main(x: int) -> None:\n    panic()
def main(x: int) -> None:\n    panic(x)
def main(x: int) -> None:\n    panic("a", "b")
def main(x: int) -> None:\n    panic("a", qubit())
def main(x: int) -> None:\n    panic("a", signal=1)
def main(x: int) -> None:\n    exit("a", 1)
def main(x: int) -> None:\n    exit("a", x)
def main(x: int) -> None:\n    exit(x, 1)
def main(x: int) -> int:\n    return panic("a")
def main(x: int) -> int:\n    y = panic("a")\n    return y
def main(q: qubit @ owned) -> int:\n    panic("a")
def main(q: qubit @ owned) -> int:\n    exit("a", 1)
def main(q: qubit @ owned) -> qubit:\n    while True:\n        pass
def main(q: qubit @ owned) -> None:\n    while True:\n        h(q)
def main(q: qubit @ owned) -> None:\n    return\n    h(q)
def main(q: qubit @ owned) -> None:\n    discard(q)\n    return\n    h(q)
def main(q: qubit @ owned) -> None:\n    discard(q)\n    if True:\n        return\n    h(q)
def main(b: bool) -> None:\n    while b:\n        q = qubit()\n    discard(q)
def main(b: bool) -> None:\n    while b:\n        q = qubit()\n        if b:\n            continue\n        discard(q)
def main(b: bool) -> None:\n    for i in range(3):\n        q = qubit()\n        if b:\n            break\n        discard(q)
def main(b: bool) -> None:\n    q = qubit()\n    for i in range(3):\n        discard(q)
def main(b: bool) -> None:\n    q = qubit()\n    for i in range(3):\n        discard(q)\n        q = qubit()
def main(b: bool) -> None:\n    q = qubit()\n    for i in range(3):\n        discard(q)\n        q = qubit()\n    discard(q)
def main(b: bool) -> None:\n    qs = array(qubit(), qubit())\n    for q in qs:\n        if b:\n            break\n        discard(q)
def main(b: bool) -> None:\n    qs = array(qubit(), qubit())\n    for q in qs:\n        discard(q)\n        return
def main(b: bool) -> None:\n    qs = array(qubit(), qubit())\n    for q in qs:\n        discard(q)\n    discard_array(qs)
def main(b: bool) -> None:\n    for q in array(qubit(), qubit()):\n        discard(q)\n        continue
def main(b: bool) -> None:\n    for q, r in array((qubit(), qubit())):\n        discard(q)
def main(b: bool) -> None:\n    xs = array(q for q in array(qubit(), qubit()))\n    discard_array(xs)
def main(b: bool) -> None:\n    xs = array((q, q) for q in array(qubit(), qubit()))
def main(b: bool) -> None:\n    q = qubit()\n    xs = array(q for _ in range(2))
def main(b: bool) -> None:\n    q = qubit()\n    xs = array(h(q) for _ in range(2))\n    discard(q)
def main(b: bool) -> None:\n    xs = array(measure(qubit()) for _ in range(2) if b)
def main(b: bool) -> None:\n    xs = array(i for i in range(2) for j in range(2))
def main(b: bool) -> None:\n    xs = array(array(i for i in range(2)) for j in range(2))
def main(b: bool) -> None:\n    xs = array(array(j for i in range(2)) for j in range(2))
def main(b: bool) -> None:\n    xs = array(x for x in 5)
def main(b: bool) -> None:\n    xs = array(x for x in b)
def main(b: bool) -> None:\n    xs = array(x for x in (1, 2))
def main(b: bool) -> None:\n    xs = array(x for x in (1, True))
def main(b: bool) -> None:\n    xs = array(x for x, y in array((1, 2)))
def main(b: bool) -> None:\n    xs = array(x async for x in range(2))
def main(b: bool) -> None:\n    xs = array((yield) for x in range(2))
def main(b: bool) -> None:\n    xs = array(*range(2))
def main(b: bool) -> None:\n    xs = array(*array(1, 2))
def main(b: bool) -> None:\n    xs = array(x=1)
def main(b: bool) -> None:\n    xs = array[int, 2](1, 2)
def main(b: bool) -> None:\n    xs = array(x for x in range(2))(1)
def main(b: bool) -> None:\n    xs = array(1, 2).copy()
def main(b: bool) -> None:\n    xs = array(qubit()).copy()
def main(b: bool) -> None:\n    xs = len(array(qubit()))
def main(b: bool) -> None:\n    xs = len(5)
def main(b: bool) -> None:\n    for x in 5:\n        pass
def main(b: bool) -> None:\n    for x in qubit():\n        pass
def main(b: bool) -> None:\n    for x in main:\n        pass
def main(b: bool) -> None:\n    for x in range:\n        pass
def main(b: bool) -> None:\n    for x in range(qubit()):\n        pass
def main(b: bool) -> None:\n    for x in range(1, 2, 0):\n        pass
def main(b: bool) -> None:\n    for x in range(1.5):\n        pass
def main(b: bool) -> None:\n    for x in range(3):\n        x = 1.5
def main(b: bool) -> None:\n    for x in range(3):\n        pass\n    y = x
def main(b: bool) -> None:\n    for _ in range(3): pass\n    for _ in array(qubit()): pass
def main(b: bool) -> None:\n    while qubit():\n        pass
def main(b: bool) -> None:\n    while measure(qubit()):\n        pass
def main(b: bool) -> None:\n    if qubit():\n        pass
def main(b: bool) -> None:\n    if (1, 2):\n        pass
def main(b: bool) -> None:\n    if array(1):\n        pass
def main(b: bool) -> None:\n    if main:\n        pass
def main(b: bool) -> None:\n    if None:\n        pass
def main(b: bool) -> None:\n    if "s":\n        pass
def main(b: bool) -> None:\n    if Point(1, 2):\n        pass
def main(b: bool) -> None:\n    x = 1 if b else qubit()
def main(b: bool) -> None:\n    x = qubit() if b else qubit()\n    discard(x)
def main(b: bool) -> None:\n    q = qubit()\n    x = q if b else q\n    discard(x)
def main(b: bool) -> None:\n    q = qubit()\n    x = b and measure(q)
def main(b: bool) -> None:\n    q = qubit()\n    if b and measure(q):\n        pass
def main(b: bool) -> None:\n    q = qubit()\n    if b or measure(q):\n        q = qubit()\n    discard(q)
def main(b: bool) -> None:\n    (q := qubit())\n    discard(q)
def main(b: bool) -> None:\n    if (c := b):\n        pass
def main(b: bool) -> None:\n    x = y = 1
def main(b: bool) -> None:\n    x = (y, z) = (1, 2)
def main(b: bool) -> None:\n    x, x = 1, 2
def main(b: bool) -> None:\n    q, q = qubit(), qubit()
def main(b: bool) -> None:\n    q = r = qubit()
def main(b: bool) -> None:\n    _ = qubit()
def main(b: bool) -> None:\n    _ = 1\n    x = _
def main(b: bool) -> None:\n    qubit()
def main(b: bool) -> None:\n    (qubit(), 1)
def main(b: bool) -> None:\n    array(qubit())
def main(b: bool) -> None:\n    Box(qubit(), 1)
def main(b: bool) -> None:\n    some(qubit())
def main(b: bool) -> None:\n    x = some(qubit())\n    x.unwrap()
def main(b: bool) -> None:\n    x = nothing()
def main(b: bool) -> None:\n    x: Option[qubit] = nothing()\n    x.unwrap_nothing()
def main(b: bool) -> None:\n    x = nothing[qubit]()
def main(b: bool) -> None:\n    x: array[int, 3] = array(1, 2)
def main(b: bool) -> None:\n    x: array[int, n] = array(1, 2)
def main(b: bool) -> None:\n    x: T = 1
def main(b: bool) -> None:\n    x: "Foo" = 1
def main(b: bool) -> None:\n    x: 1 = 1
def main(b: bool) -> None:\n    x: qubit @ owned = qubit()
def main(b: bool) -> None:\n    x: Callable[[int], int] = ident
def main(b: bool) -> None:\n    x: Callable[[T], T] = ident
def main(b: bool) -> None:\n    x: Callable[[qubit @ owned], bool] = measure
def main(b: bool) -> None:\n    x: Callable[[qubit], bool] = measure
def main(b: bool) -> None:\n    x: Callable = ident
def main(b: bool) -> None:\n    x: Callable[[], None] = main
def main(b: bool) -> None:\n    x: tuple = (1, 2)
def main(b: bool) -> None:\n    x: list = [1]
def main(b: bool) -> None:\n    x: list[qubit] = []
def main(b: bool) -> None:\n    x = []
def main(b: bool) -> None:\n    x = [qubit()]
def main(b: bool) -> None:\n    x = [1, True]
def main(b: bool) -> None:\n    x = [1] + [2]
def main(b: bool) -> None:\n    x = [1]\n    x[0] = 2
def main(b: bool) -> None:\n    x = [1]\n    x.append(2)
def main(b: bool) -> None:\n    x = "a" + "b"
def main(b: bool) -> None:\n    x = "a"[0]
def main(b: bool) -> None:\n    x = f"{b}"
def main(b: bool) -> None:\n    x = b"a"
def main(b: bool) -> None:\n    x = ...
def main(b: bool) -> None:\n    x = None\n    y = x
def main(b: bool) -> None:\n    x = {1}
def main(b: bool) -> None:\n    x = {1: 2}
def main(b: bool) -> None:\n    x = {**b}
def main(b: bool) -> None:\n    x = print
def main(b: bool) -> None:\n    print(b)
def main(b: bool) -> None:\n    x = len
def main(b: bool) -> None:\n    x = int
def main(b: bool) -> None:\n    x = int(b) + int(1.5) + int("3")
def main(b: bool) -> None:\n    x = float(qubit())
def main(b: bool) -> None:\n    x = bool(1.5)
def main(b: bool) -> None:\n    x = str(1)
def main(b: bool) -> None:\n    x = abs(b)
def main(b: bool) -> None:\n    x = min(1, 2)
def main(b: bool) -> None:\n    x = divmod(1, 2)
def main(b: bool) -> None:\n    x = pow(2, 3)
def main(b: bool) -> None:\n    x = round(2.5)
def main(b: bool) -> None:\n    x = isinstance(b, bool)
def main(b: bool) -> None:\n    x = type(b)
def main(b: bool) -> None:\n    x = super()
def main(b: bool) -> None:\n    x = __name__
def main(b: bool) -> None:\n    x = __file__
def main(b: bool) -> None:\n    x = main.__name__
def main(b: bool) -> None:\n    import math\n    x = math.pi
def main(b: bool) -> None:\n    x = diag_seeds
def main(b: bool) -> None:\n    x = angle(1.0).halfturns
def main(b: bool) -> None:\n    x = pi.halfturns + 1
def main(b: bool) -> None:\n    x = pi * pi
def main(b: bool) -> None:\n    x = 2 * pi
def main(b: bool) -> None:\n    x = pi / 0
def main(b: bool) -> None:\n    q = qubit()\n    rz(q, 1.5)\n    discard(q)
def main(b: bool) -> None:\n    q = qubit()\n    rz(q, pi, pi)\n    discard(q)
def main(b: bool) -> None:\n    q = qubit()\n    h(q, q)
def main(b: bool) -> None:\n    q = qubit()\n    h()\n    discard(q)
def main(b: bool) -> None:\n    q = qubit()\n    cx(q, q)\n    discard(q)
def main(b: bool) -> None:\n    q = qubit()\n    q.h()\n    q.discard()
def main(b: bool) -> None:\n    q = qubit()\n    q.measure().foo
def main(b: bool) -> None:\n    q = qubit()\n    qubit.measure(q)
def main(b: bool) -> None:\n    q = qubit()\n    r = q\n    discard(q)
def main(b: bool) -> None:\n    q = qubit()\n    discard(q)\n    discard(q)
def main(b: bool) -> None:\n    q = qubit()\n    measure(h(q))
def main(b: bool) -> None:\n    q = qubit()\n    t = (q, 1)\n    discard(t[0])
def main(b: bool) -> None:\n    q = qubit()\n    t = (q, 1)\n    a, c = t\n    discard(q)
def main(b: bool) -> None:\n    p = Pair2(qubit(), qubit())
def main(q: qubit) -> qubit:\n    return q
def main(q: qubit) -> None:\n    discard(q)
def main(q: qubit) -> None:\n    q = qubit()
def main(q: qubit) -> None:\n    r = q
def main(q: qubit) -> None:\n    t = (q,)
def main(q: qubit) -> None:\n    xs = array(q)
def main(q: qubit) -> None:\n    def f() -> None:\n        h(q)\n    f()
def main(q: qubit @ owned @ owned) -> None:\n    discard(q)
def main(q: "qubit @ owned") -> None:\n    discard(q)
def main(q: qubit @ comptime) -> None:\n    pass
def main(k: int @ comptime) -> int:\n    return k
def main(k: nat @ comptime) -> array[int, k]:\n    return array(0 for _ in range(k))
def main(k: nat @ comptime, xs: array[int, k]) -> int:\n    return k
def main(k: float @ comptime) -> float:\n    return k
def main(k: qubit @ comptime) -> None:\n    pass
def main(k: "array[int, 2] @ comptime") -> None:\n    pass
def main(k: str @ comptime) -> None:\n    result(k, 1)
def main(*args: int) -> None:\n    pass
def main(**kw: int) -> None:\n    pass
def main(x: int = 1) -> None:\n    pass
def main(x: int, /) -> None:\n    pass
def main(*, x: int) -> None:\n    pass
def main(x) -> None:\n    pass
def main(x: int):\n    pass
def main(x: int) -> int:\n    pass
def main(x: int) -> int:\n    "doc"
def main(x: int) -> int:\n    ...
def main(x: int) -> None:\n    "doc"\n    "doc2"
def main(x: int) -> None:\n    return 1
def main(x: int) -> int:\n    return
def main(x: int) -> int:\n    if x:\n        return 1
def main(x: int) -> int:\n    while x:\n        return 1
def main(x: int) -> int:\n    while True:\n        return 1
def main(x: int) -> int:\n    while True:\n        break\n    return 1
def main(x: int) -> int:\n    while True:\n        if x:\n            break
def main(x: int) -> int:\n    for i in range(3):\n        return 1
def main(x: int) -> int:\n    try:\n        return 1\n    except:\n        return 2
def main(x: int) -> int:\n    with x:\n        return 1
def main(x: int) -> int:\n    with dagger:\n        pass\n    return 1
def main(q: qubit) -> None:\n    with dagger:\n        h(q)
def main(q: qubit) -> None:\n    with dagger:\n        x = 1
def main(q: qubit) -> None:\n    with dagger:\n        r = qubit()\n        discard(r)
def main(q: qubit) -> None:\n    with dagger:\n        measure(q)
def main(q: qubit) -> None:\n    with control(q):\n        h(q)
def main(q: qubit, r: qubit) -> None:\n    with control(q):\n        h(r)
def main(q: qubit, r: qubit) -> None:\n    with control(q, q):\n        h(r)
def main(q: qubit, r: qubit) -> None:\n    with control(1):\n        h(r)
def main(q: qubit, r: qubit) -> None:\n    with control(array(q)):\n        h(r)
def main(q: qubit, r: qubit) -> None:\n    with control(qubit()):\n        h(r)
def main(q: qubit, r: qubit) -> None:\n    with power(q):\n        h(r)
def main(q: qubit, r: qubit) -> None:\n    with power(-1):\n        h(r)
def main(q: qubit, r: qubit) -> None:\n    with power(2), power(3), dagger, dagger:\n        h(r)
def main(q: qubit, r: qubit) -> None:\n    with power(2):\n        with control(q):\n            h(r)
def main(q: qubit, r: qubit) -> None:\n    with control(q):\n        with control(q):\n            h(r)
def main(q: qubit, r: qubit) -> None:\n    with control(q):\n        if True:\n            h(r)
def main(q: qubit, r: qubit) -> None:\n    with control(q):\n        for i in range(2):\n            h(r)
def main(q: qubit, r: qubit) -> None:\n    with control(q):\n        while True:\n            h(r)
def main(q: qubit, r: qubit) -> None:\n    with control(q):\n        def f() -> None:\n            pass\n        f()
def main(q: qubit, r: qubit) -> None:\n    with control(q):\n        main(q, r)
def main(q: qubit, r: qubit) -> None:\n    with control(q):\n        x = 1\n    y = x
def main(q: qubit, r: qubit) -> None:\n    x = 1\n    with control(q):\n        x = 2\n    y = x
def main(q: qubit, r: qubit) -> None:\n    x = 1\n    with control(q):\n        y = x
def main(q: qubit, r: qubit) -> None:\n    with dagger, control(q), power(2):\n        pass
def main(q: qubit, r: qubit) -> None:\n    with dagger as d:\n        pass
def main(q: qubit, r: qubit) -> None:\n    with dagger(1):\n        pass
def main(q: qubit, r: qubit) -> None:\n    with control:\n        pass
def main(q: qubit, r: qubit) -> None:\n    with control():\n        pass
def main(q: qubit, r: qubit) -> None:\n    with power:\n        pass
def main(q: qubit, r: qubit) -> None:\n    with power(1, 2):\n        pass
def main(q: qubit, r: qubit) -> None:\n    with power(x=1):\n        pass
def main(q: qubit, r: qubit) -> None:\n    with control(q), foo:\n        pass
def main(q: qubit, r: qubit) -> None:\n    with control(q):\n        return
def main(q: qubit, r: qubit) -> None:\n    while True:\n        with control(q):\n            break
def main(q: qubit, r: qubit) -> None:\n    while True:\n        with control(q,\n                r):\n            continue
def main(q: qubit, r: qubit) -> None:\n    with control(q,\n                 r), dagger:\n        return
def main(x: int) -> int:\n    """doc"""
def main(x: int) -> None:\n    """doc"""
def main(x: int) -> int:\n    def f() -> int:\n        "doc"\n    return f()
def main(x: int) -> float:\n    return -1e999
def main(x: int) -> float:\n    y = 1e999\n    return 0.0
def main(x: int) -> float:\n    return comptime(1e999)
def main(x: int) -> float:\n    return 1e308 * 10.0
def main(x: int) -> None:\n    fs = array(ident)
def main(x: int) -> None:\n    fs = array(head, head)
def main(x: int) -> None:\n    fs = array(keep, keep)
def main(x: int) -> None:\n    fs = array(Box, Box)
def main(x: int) -> None:\n    fs = (ident, 1)[0](x)
def main(x: int) -> None:\n    f = ident if x else ident
def main(x: int) -> None:\n    f = ident\n    g = f(f)
def main(x: int) -> None:\n    f = first((ident, 1))
def main(x: int) -> None:\n    f = some(ident).unwrap()
def main(x: int) -> None:\n    f = keep(ident)
def main(x: int) -> None:\n    f = head(array(ident))
def main(x: int) -> None:\n    xs = array(x for x in range(3) async for y in range(2))
def main(x: int) -> None:\n    xs = [x async for x in range(3)]
def main(x: int) -> None:\n    xs = [await x for x in range(3)]
def main(x: int) -> None:\n    xs = array(x for x in range(3) if (yield))
def main(x: int) -> None:\n    xs = array(x for x.y in range(3))
def main(x: int) -> None:\n    xs = array(x for x[0] in range(3))
def main(x: int) -> None:\n    xs = array(x for *x, y in array((1, 2)))
def main(x: int) -> None:\n    xs = array(1 for _ in range(3) for _ in range(2))
def main(x: int) -> None:\n    xs = array(lambda: 1 for _ in range(3))
def main(x: int) -> None:\n    xs = array(x for x in range(3))[5]
def main(x: int) -> None:\n    xs = array(x for x in range(-1))
def main(x: int) -> None:\n    xs = array(x for x in range(2 ** 40))
def main(x: int) -> None:\n    xs = array(x for x in range(3, 1))
def main(x: int) -> None:\n    xs = array(x for x in range(0, 10, 3))
def main(x: int) -> None:\n    xs = array(x for x in range(comptime(3)))
def main(x: int) -> None:\n    xs = array(x for x in range(True))
def main(a: qubit, b: qubit, t: qubit) -> None:\n    with control(a,\n                 b), dagger:\n        h(t)\n        return
def main(a: qubit, b: qubit, t: qubit) -> None:\n    for i in range(2):\n        with control(a), power(2,\n        ):\n            break
def main(a: qubit, b: qubit, t: qubit) -> None:\n    with control(a), \\n         dagger:\n        return
def main(x: int) -> int:\n    return (x +\n            "a")
def main(x: int) -> int:\n    y = ident(x,\n              x)\n    return y
def main(x: int) -> int:\n    if x:\n        if x:\n            if x:\n                if x:\n                    return (x +\n                            "a")\n    return x
def main(x: int) -> int:\n    if x:\n        if x:\n            if x:\n                if x:\n                    return x + "a"\n    return x
def main(x: int) -> int:\n    y = "é" + x\n    return y
def main(x: int) -> int:\n    é = 1\n    return é + "a"
def main(x: int) -> int:\n\tif x:\n\t\treturn x + "a"\n\treturn x
def main(x: int) -> int:\n    return x\n    y = nope + 1
def main(x: int) -> int:\n    return x\n    return nope
def main(x: int) -> int:\n    if False:\n        return nope\n    return x
def main(x: int) -> int:\n    if True:\n        return x\n    else:\n        return nope
def main(x: int) -> int:\n    if x > 0:\n        return x\n        y = nope\n    return x
def main(x: int) -> int:\n    while True:\n        return x\n    return nope
def main(x: int) -> int:\n    for i in range(3):\n        break\n        later = nope\n    return x
def main(x: int) -> int:\n    return x\n    z = later\n    later = 1
def main(x: int) -> int:\n    while False:\n        x = nope\n    return x
def main(x: int) -> int:\n    return x\n    def g() -> int:\n        return nope\n    return g()
def main(x: int) -> int:\n    return x\n    if nope:\n        pass
def main(x: int) -> int:\n    return x\n    return x + "a"
def main(x: int) -> None:\n    return\n    nope(x)
def main(q: qubit @ owned) -> None:\n    discard(q)\n    return\n    h(nope)
def main(xs: array[int, 3]) -> int:\n    for xs in xs:\n        pass\n    return 1
def main(xs: array[int, 3], c: bool) -> int:\n    if c:\n        xs = 1\n    return 1
def main(x: int) -> None:\n    panic("m", ident, x)
def main(x: int) -> None:\n    exit("m", 1, ident)
'''

PROBES = [PRE + "@guppy\n" + line.replace("\\n", "\n").replace("\\t", "\t") + "\n" for line in _P.strip().split("\n")]
