"""Canonical form of a compiled HUGR module for C11.

Nodes are renumbered by depth-first preorder over the hierarchy (children in their stored
order), edges are rewritten to the new numbering and sorted, and generated symbol names are
renumbered by first occurrence in that traversal:
    %tmpN (temporaries), name.N (GlobalConstId), and nothing else.
Everything else (ops, types, port order, function order, metadata) is kept.
"""
from __future__ import annotations

import hashlib
import json
import re

_GEN = re.compile(r"%tmp\d+|(?<=[A-Za-z_\]\)])\.\d+\b")


def _serial(h) -> dict:
    return json.loads(h._to_serial().model_dump_json())


def canon(h, rename: bool = True) -> dict:
    d = _serial(h)
    nodes = d["nodes"]
    kids: dict[int, list[int]] = {}
    root = None
    for i, n in enumerate(nodes):
        if n["parent"] == i:
            root = i
        else:
            kids.setdefault(n["parent"], []).append(i)
    assert root is not None
    order: list[int] = []
    stack = [root]
    while stack:
        x = stack.pop()
        order.append(x)
        stack.extend(reversed(kids.get(x, [])))
    assert len(order) == len(nodes), "hierarchy is not a tree"
    new = {old: k for k, old in enumerate(order)}
    out_nodes = []
    for old in order:
        n = dict(nodes[old])
        n["parent"] = new[n["parent"]]
        out_nodes.append(n)
    edges = sorted(([[new[a], -1 if ap is None else ap], [new[b], -1 if bp is None else bp]]
                    for (a, ap), (b, bp) in d["edges"]))
    meta = d.get("metadata") or [None] * len(nodes)
    out = {"nodes": out_nodes, "edges": edges, "metadata": [meta[old] for old in order],
           "entrypoint": new.get(d.get("entrypoint"), d.get("entrypoint"))}
    text = json.dumps(out, sort_keys=True)
    if rename:
        seen: dict[str, str] = {}

        def sub(mo):
            s = mo.group(0)
            if s not in seen:
                seen[s] = ("%tmp#" if s.startswith("%") else ".#") + str(len(seen))
            return seen[s]

        text = _GEN.sub(sub, text)
    return {"text": text, "n_nodes": len(nodes)}


def digest(h) -> str:
    return hashlib.sha256(canon(h)["text"].encode()).hexdigest()[:20]


def explain_diff(a: str, b: str, width: int = 160) -> str:
    """First difference between two canonical texts (for triage)."""
    i = next((k for k in range(min(len(a), len(b))) if a[k] != b[k]), min(len(a), len(b)))
    lo = max(0, i - width // 2)
    return f"first difference at char {i} of {len(a)}/{len(b)}:\n  A: ...{a[lo:i + width]}\n  B: ...{b[lo:i + width]}"
