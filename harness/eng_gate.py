"""C33 replay: drive the real experimental-feature gate along histories printed by spec/Gate.tla.

A history is a list of [op, arg, flagAfter, outcome] (see Gate.tla).  `replay(hist)` executes
op/arg on /repo's guppylang (real `with` statements, real `defn.check()`), and returns the
observed [op, arg, flagAfter, outcome] list; the caller compares it with the spec's.
"""
from __future__ import annotations

import gp  # noqa: F401  (activates the shim; guppylang resolves under /repo)

PROGRAMS = {
    "list_lit": "@guppy\ndef main() -> None:\n    [1, 2, 3]\n",
    "list_comp": "@guppy\ndef main() -> None:\n    [i for i in range(10)]\n",
    "list_type": "@guppy\ndef main(x: list[int]) -> list[int]:\n    return x\n",
    "tensor": ("@guppy\ndef f(x: int) -> int:\n    return x\n\n@guppy\ndef g(x: int) -> int:\n    return x\n\n"
               "@guppy\ndef main() -> tuple[int, int]:\n    h = (f, g)\n    return h(1, 2)\n"),
    "tensor_syn": ("@guppy\ndef f(x: int) -> int:\n    return x\n\n@guppy\ndef g(x: int) -> int:\n    return x\n\n"
                   "@guppy\ndef main() -> int:\n    h = (f, g)\n    a, b = h(1, 2)\n    return a + b\n"),
    "closure": "@guppy\ndef main() -> None:\n    x = 42\n\n    def inner() -> int:\n        return x\n",
    "modifier": "@guppy\ndef main() -> None:\n    with dagger:\n        pass\n",
    "plain": "@guppy\ndef main(x: int) -> int:\n    return x + 1\n",
}

_mods: dict = {}


class Boom(Exception):
    """The exception raised in a with-body for an `exit exc` step."""


def _prog(name: str):
    if name not in _mods:
        _mods[name] = gp.load(PROGRAMS[name], name=f"_verif_gate_{name}")
    return _mods[name].main


def preload() -> None:
    import guppylang.std.builtins  # noqa: F401
    import guppylang.std.quantum  # noqa: F401

    for name in PROGRAMS:
        _prog(name)


def _flag() -> str:
    import guppylang_internals.experimental as ex

    v = ex.EXPERIMENTAL_FEATURES_ENABLED
    return "T" if v is True else "F" if v is False else repr(v)


def check_verdict(name: str) -> str:
    from guppylang_internals.error import GuppyError

    try:
        try:
            _prog(name).check()
        except OSError:
            # inspect could not read a source file (tree being modified concurrently?): retry once
            import linecache

            linecache.checkcache()
            _prog(name).check()
        return "acc"
    except OSError as e:
        return f"machinery OSError: {e}"
    except GuppyError as e:
        d = e.error
        title = getattr(d, "rendered_title", None) or getattr(d, "title", "")
        things = getattr(d, "things", None)
        return f"{title}: {things}"
    except Exception as e:  # noqa: BLE001 - a crash is an observation
        return f"crash {type(e).__name__}: {str(e)[:200]}"


def replay(hist: list, reset: bool = True) -> list:
    """Execute the ops of `hist` on the real module; returns observed history."""
    import guppylang.experimental as pub  # public re-export of the context managers
    import guppylang_internals.experimental as ex

    assert pub.enable_experimental_features is ex.enable_experimental_features
    if reset:
        ex.EXPERIMENTAL_FEATURES_ENABLED = False  # model Init (module default, verified separately)
    cms = {"enable": pub.enable_experimental_features, "disable": pub.disable_experimental_features}
    obs: list = []
    n = len(hist)

    def block(i: int) -> tuple[int, str]:
        """Run steps from i in the current block; returns (index of the exit step, mode)."""
        while i < n:
            op, arg = hist[i][0], hist[i][1]
            if op == "call":
                cms[arg]()
                obs.append([op, arg, _flag(), ""])
                i += 1
            elif op == "check":
                v = check_verdict(arg)
                obs.append([op, arg, _flag(), v])
                i += 1
            elif op == "enter":
                out = ""
                mode = "?"
                j = i
                try:
                    with cms[arg]():
                        obs.append([op, arg, _flag(), ""])
                        j, mode = block(i + 1)
                        if mode == "exc":
                            raise Boom
                    if mode == "exc":
                        out = "swallowed"
                except Boom:
                    out = "propagated"
                if mode == "end":
                    return j, "end"  # history ended inside the block (closed normally, unobserved)
                obs.append(["exit", mode, _flag(), out])
                i = j + 1
            elif op == "exit":
                return i, arg
            else:
                raise ValueError(op)
        return n, "end"

    i, mode = block(0)
    if mode != "end":
        raise ValueError(f"unbalanced history at step {i}")
    return obs


def replay_job(job: dict) -> list:
    """job = {"hists": [hist, ...]} -> list of (index, first differing step, expected, observed)."""
    bad = []
    for k, h in enumerate(job["hists"]):
        try:
            o = replay(h)
        except Exception as e:  # noqa: BLE001
            bad.append([k, -1, None, f"replay crashed: {type(e).__name__}: {e}"])
            continue
        if o != h:
            step = next((s for s in range(min(len(o), len(h))) if o[s] != h[s]), min(len(o), len(h)))
            bad.append([k, step, h[step] if step < len(h) else None, o[step] if step < len(o) else None])
    return bad


def default_flag_fresh_process() -> str:
    """Flag value right after import in a fresh interpreter (model Init says FALSE)."""
    import subprocess
    import sys

    code = ("import gp, guppylang, guppylang_internals.experimental as ex;"
            "print('FLAG', ex.EXPERIMENTAL_FEATURES_ENABLED)")
    p = subprocess.run([sys.executable, "-c", code], capture_output=True, text=True)
    for l in p.stdout.splitlines():
        if l.startswith("FLAG "):
            return l.split()[1]
    raise RuntimeError(p.stderr[-800:])
