"""C24 helper: render a case of spec/Unitary.tla to Guppy source and observe /repo's verdict.

A case is the JSON form of the TLA+ record
  [ctx |-> [kind, deco, alias, levels], call |-> [kind, flags, args, pos], con |-> construct]
The renderer is the (trusted) projection spec case -> concrete program; the *verdict* is
never computed here - it comes from TLC.
"""
from __future__ import annotations

import hashlib
import itertools
import json

FLAGKW = {"C": "control", "D": "dagger", "P": "power"}
ALLF = ["C", "D", "P"]
SUBSETS = [tuple(s) for r in range(4) for s in itertools.combinations(ALLF, r)]
NCTRL = 6

PRELUDE_EXTRA = """\
from collections.abc import Callable
from guppylang.std.debug import state_result
"""


def fid(flags) -> str:
    return "".join(sorted(flags)) or "N"


def deco(head: str, flags, alias: bool = False) -> str:
    if alias:
        return f"@{head}(unitary=True)"
    if not flags:
        return f"@{head}"
    return f"@{head}(" + ", ".join(f"{FLAGKW[f]}=True" for f in sorted(flags)) + ")"


def declarations() -> str:
    out = ["@guppy.declare\ndef cl(x: bool) -> None: ...\n",
           "@guppy.declare(unitary=True)\ndef u2(x: qubit, y: bool) -> None: ...\n",
           "@guppy.declare(unitary=True)\ndef u3(y: bool, x: qubit) -> None: ...\n"]
    for F in SUBSETS:
        n = fid(F)
        d = deco("guppy.declare", F)
        out.append(f"{d}\ndef d_{n}_q(q: qubit) -> bool: ...\n")
        out.append(f"{d}\ndef d_{n}_c(n: int) -> bool: ...\n")
        out.append(f"{d}\ndef d_{n}_qc(q: qubit, n: int) -> bool: ...\n")
        out.append(f"{d}\ndef d_{n}_arr(qs: array[qubit, 2]) -> bool: ...\n")
        g = deco("guppy", F)
        out.append(f"{g}\ndef f_{n}_q(q: qubit) -> bool:\n    return True\n")
        out.append(f"{g}\ndef f_{n}_qc(q: qubit, n: int) -> bool:\n    return True\n")
    return "\n".join(out)


ARGS = {"q": "q", "c": "n", "qc": "q, n", "arr": "qs"}
PARAMS = ("q: qubit, r: qubit, qs: array[qubit, 2], n: int, b: bool, k: nat, "
          + ", ".join(f"c{i}: qubit" for i in range(1, NCTRL + 1))
          + ", fq: Callable[[qubit], bool], fc: Callable[[int], bool]")


def call_expr(call: dict) -> str:
    k, a = call["kind"], call["args"]
    n = fid(call["flags"])
    if k == "decl":
        return f"d_{n}_{a}({ARGS[a]})"
    if k == "defn":
        return f"f_{n}_{a}({ARGS[a]})"
    if k == "local":
        return {"q": "fq(q)", "c": "fc(n)"}[a]
    if k in ("h", "reset", "project_z", "barrier"):
        return f"{k}(q)"
    if k == "state_result":
        return 'state_result("t", q)'
    raise ValueError(k)


def call_stmts(call: dict) -> list[str]:
    if call["kind"] == "none":
        return []
    e = call_expr(call)
    return {
        "stmt": [e],
        "nested_arg": [f"cl({e})"],
        "arg_after_qubit": [f"u2(r, {e})"],
        "arg_before_qubit": [f"u3({e}, r)"],
        "if_cond": [f"if {e}:", "    pass"],
        "while_cond": [f"while {e}:", "    pass"],
        "ifexp_cond": [f"cl(b if {e} else b)"],
        "ifexp_arm": [f"cl({e} if b else b)"],
        "boolop_cond": [f"if b and {e}:", "    pass"],
    }[call["pos"]]


CONSTRUCTS = {
    "none": [],
    "for": ["for i in range(2):", "    pass"],
    "while": ["while b:", "    pass"],
    "assign": ["y = n"],
    "annassign": ["y: int = n"],
    "augassign": ["n += 1"],
    "subscript": ["h(qs[0])"],
}


def with_items(stack: list[str], first_ctrl: int, variant: int) -> tuple[str, int]:
    items = []
    c = first_ctrl
    for j, m in enumerate(stack):
        if m == "dagger":
            items.append("dagger()" if (variant + j) % 2 else "dagger")
        elif m == "control":
            items.append(f"control(c{c})")
            c += 1
        elif m == "power":
            items.append("power(k)" if (variant + j) % 2 else "power(2)")
        else:
            raise ValueError(m)
    return ", ".join(items), c


def case_key(case: dict) -> str:
    c, k = case["ctx"], case["call"]
    parts = []
    if c["deco"] or not c["levels"]:
        parts.append("deco[" + ("unitary" if c["alias"] else fid(c["deco"])) + "]")
    parts += ["with[" + ",".join(lv) + "]" for lv in c["levels"]]
    cx = ">".join(parts)
    cl = "nocall" if k["kind"] == "none" else f"{k['kind']}[{fid(k['flags'])}]({k['args']})@{k['pos']}"
    return f"{cx} {cl} {case['con']}"


def variant_of(case: dict, seed: int) -> int:
    h = hashlib.sha256((case_key(case) + f"#{seed}").encode()).digest()
    return h[0]


def render_test(case: dict, name: str, seed: int = 0) -> str:
    """Source of one test function for the case."""
    v = variant_of(case, seed)
    ctx = case["ctx"]
    a, b = CONSTRUCTS[case["con"]], call_stmts(case["call"])
    body = (a + b) if v & 2 else (b + a)
    if not body:
        body = ["pass"]
    ind = lambda ls, n: ["    " * n + l for l in ls]  # noqa: E731
    lines = [deco("guppy", ctx["deco"], ctx["alias"]), f"def {name}({PARAMS}) -> None:"]
    c, depth = 1, 1
    for lv in ctx["levels"]:
        items, c = with_items(lv, c, v >> (depth - 1))
        lines.append("    " * depth + f"with {items}:")
        depth += 1
    lines += ind(body, depth)
    return "\n".join(lines) + "\n"


def render_module(cases: list[dict], seed: int = 0) -> str:
    return declarations() + "\n" + "\n".join(render_test(c, f"t{i}", seed) for i, c in enumerate(cases))


# ---------------------------------------------------------------------------------------
# observation of the real code (runs in pool workers)
# ---------------------------------------------------------------------------------------
def _flagset(fl) -> list[str]:
    from guppylang_internals.tys.ty import UnitaryFlags

    out = []
    for n, f in (("C", UnitaryFlags.Control), ("D", UnitaryFlags.Dagger), ("P", UnitaryFlags.Power)):
        if f in fl:
            out.append(n)
    return out


def classify(e) -> dict:
    """Project a GuppyError onto the reasons of the spec."""
    d = e.error
    n = type(d).__name__
    if n == "UnitaryCallError":
        return {"reason": "Call", "missing": _flagset(d.flags)}
    if n == "InvalidUnderDagger":
        return {"reason": d.things}  # "Loop" | "Assignment"
    if n == "UnsupportedError" and d.things == "index access" and d.unsupported_in == "dagger context":
        return {"reason": "Subscript"}
    return {"reason": "OTHER", "diag": n, "title": getattr(d, "title", "")}


def funcdefn_meta(pkg) -> list[list]:
    import hugr.ops as ops

    h = pkg.modules[0]
    out = []
    for n in h.children(h.module_root):
        op = h[n].op
        if isinstance(op, ops.FuncDefn):
            md = h[n].metadata
            out.append([op.f_name, md.get("unitary", None) if hasattr(md, "get") else dict(md).get("unitary")])
    return out


def observe_batch(job: dict) -> list[dict]:
    """job = {"cases": [...], "seed": int, "compile": bool}; one module per job. Total (never raises)."""
    import traceback

    import gp
    import guppylang_internals.experimental as ex
    from guppylang_internals.error import GuppyError

    res = []
    prev = ex.EXPERIMENTAL_FEATURES_ENABLED
    ex.EXPERIMENTAL_FEATURES_ENABLED = True
    mod = None
    try:
        src = render_module(job["cases"], job.get("seed", 0))
        mod = gp.load(src, prelude=gp.PRELUDE + PRELUDE_EXTRA)
        for i, case in enumerate(job["cases"]):
            r: dict = {}
            d = getattr(mod, f"t{i}")
            try:
                d.check()
                r["verdict"] = "accept"
            except GuppyError as e:
                r["verdict"] = "reject"
                r.update(classify(e))
            except Exception as e:  # noqa: BLE001
                r["verdict"] = "crash"
                r["error"] = f"{type(e).__name__}: {e}"[:300]
                r["tb"] = traceback.format_exc()[-1200:]
            if r["verdict"] == "accept" and job.get("compile", True):
                try:
                    pkg = d.compile_function()
                    r["meta"] = funcdefn_meta(pkg)
                    if job.get("validate", False):
                        try:
                            gp.validate(pkg)
                            r["valid"] = True
                        except Exception as e:  # noqa: BLE001
                            r["valid"] = False
                            r["invalid_msg"] = str(e)[:300]
                except Exception as e:  # noqa: BLE001
                    r["compile_error"] = f"{type(e).__name__}: {e}"[:300]
            res.append(r)
    except BaseException as e:  # noqa: BLE001
        tb = traceback.format_exc()[-1500:]
        while len(res) < len(job["cases"]):
            res.append({"verdict": "machinery", "error": f"{type(e).__name__}: {e}"[:300], "tb": tb})
    finally:
        ex.EXPERIMENTAL_FEATURES_ENABLED = prev
        if mod is not None:
            gp.unload(mod)
    return res


if __name__ == "__main__":
    import sys

    case = json.loads(sys.argv[1])
    print(render_test(case, "test", int(sys.argv[2]) if len(sys.argv) > 2 else 0))
