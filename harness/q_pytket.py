"""C26 helpers: build the pytket circuit that spec/Pytket.tla describes (registers in creation
order, operations by creation index, symbolic angles), load it into Guppy three ways
(load_pytket flat / with arrays, @guppy.pytket stub), run on the reference interpreter with the
measurement outcomes forced per qubit, and check stub / array-call signatures."""
from __future__ import annotations

import q_circ

REG: dict = {}  # circuits handed to the exec'd Guppy source

PRELUDE = q_circ.PRELUDE + "from q_pytket import REG\n"

PYTKET_NAME = {"h": "H", "x": "X", "y": "Y", "z": "Z", "s": "S", "sdg": "Sdg", "t": "T", "tdg": "Tdg",
               "v": "V", "vdg": "Vdg", "rx": "Rx", "ry": "Ry", "rz": "Rz", "cx": "CX", "cy": "CY",
               "cz": "CZ", "crz": "CRz", "toffoli": "CCX"}


def units(regs):
    return [(name, i) for name, size in regs for i in range(size)]


def build_circuit(shape, ops):
    """shape = {"q": [[name, size]..], "c": [...]} in creation order."""
    from pytket import Circuit
    from sympy import Symbol

    c = Circuit()
    qs, bs = [], []
    for name, size in shape["q"]:
        r = c.add_q_register(name, size)
        qs += [r[i] for i in range(size)]
    for name, size in shape["c"]:
        r = c.add_c_register(name, size)
        bs += [r[i] for i in range(size)]
    for op in ops:
        g = op["g"]
        if g == "measure":
            c.Measure(qs[op["qs"][0]], bs[op["bit"]])
        elif g == "reset":
            c.Reset(qs[op["qs"][0]])
        else:
            args = []
            for a in op["a"]:
                if a[0] == "t":
                    args.append(a[1] / 4)
                elif a[0] == "sym":
                    args.append(Symbol(a[1]))
                elif a[0] == "sym2":
                    args.append(2 * Symbol(a[1]))
                elif a[0] == "symp":
                    args.append(Symbol(a[1]) + 0.25)
                else:
                    raise ValueError(a)
            getattr(c, PYTKET_NAME[g])(*args, *[qs[i] for i in op["qs"]])
    return c


def ret_type(nb: int) -> str:
    return "None" if nb == 0 else "bool" if nb == 1 else "tuple[" + ", ".join(["bool"] * nb) + "]"


def lex_sizes(regs):
    return [size for name, size in sorted(map(tuple, regs))]


def sources(key: str, shape, nparams: int, prep, nq_total: int = 3) -> str:
    """Guppy module: the circuit loaded three ways and one main per way."""
    nq = sum(s for _, s in shape["q"])
    nb = sum(s for _, s in shape["c"])
    qsizes, csizes = lex_sizes(shape["q"]), lex_sizes(shape["c"])
    angles = [f"angle({(k + 1) / 4!r})" for k in range(nparams)]
    alloc = "    " + "; ".join(f"q{i} = qubit()" for i in range(nq_total))
    prep_src = "".join("    " + l + "\n" for op in prep for l in q_circ.op_src(op, "x"))
    stub_params = [f"q{i}: qubit" for i in range(nq)] + [f"a{i}: angle" for i in range(nparams)]
    src = f'CIRC = REG["{key}"]\n'
    src += 'f_flat = guppy.load_pytket("f_flat", CIRC, use_arrays=False)\n'
    src += 'f_arr = guppy.load_pytket("f_arr", CIRC, use_arrays=True)\n'
    src += f"@guppy.pytket(CIRC)\ndef f_stub({', '.join(stub_params)}) -> {ret_type(nb)}: ...\n\n"
    for way in ("flat", "stub"):
        call = f"f_{way}({', '.join([f'q{i}' for i in range(nq)] + angles)})"
        body = [alloc, prep_src.rstrip("\n")]
        if nb == 0:
            body.append(f"    {call}")
        elif nb == 1:
            body += [f"    r = {call}", '    result("b0", r)']
        else:
            body.append(f"    r = {call}")
            body += [f'    result("b{k}", r[{k}])' for k in range(nb)]
        body.append(f'    state_result("s", {", ".join(f"q{i}" for i in range(nq_total))})')
        body += [f"    Q.discard(q{i})" for i in range(nq_total)]
        src += f"@guppy\ndef main_{way}() -> None:\n" + "\n".join(b for b in body if b) + "\n\n"
    # arrays: one per register in lexicographic order, filled with the caller's qubits in order
    body = [alloc, prep_src.rstrip("\n")]
    places, p = [], 0
    for r, size in enumerate(qsizes):
        body.append(f"    ra{r} = array({', '.join(f'q{p + i}' for i in range(size))})")
        places += [f"ra{r}[{i}]" for i in range(size)]
        p += size
    places += [f"q{i}" for i in range(nq, nq_total)]
    args = [f"ra{r}" for r in range(len(qsizes))] + ([f"array({', '.join(angles)})"] if nparams else [])
    call = f"f_arr({', '.join(args)})"
    if not csizes:
        body.append(f"    {call}")
    elif len(csizes) == 1:
        body += [f"    c0 = {call}", '    result("c0", c0)']
    else:
        body.append(f"    {', '.join(f'c{k}' for k in range(len(csizes)))} = {call}")
        body += [f'    result("c{k}", c{k})' for k in range(len(csizes))]
    body.append(f'    state_result("s", {", ".join(places)})')
    body += [f"    Q.discard_array(ra{r})" for r in range(len(qsizes))]
    body += [f"    Q.discard(q{i})" for i in range(nq, nq_total)]
    src += "@guppy\ndef main_arr() -> None:\n" + "\n".join(b for b in body if b) + "\n"
    return src


def metadata_param_order(circ):
    """the order in which the installed tket lists the free symbols (TKET1.input_parameters), read
    the same way /repo's compile_outer reads it; None if absent"""
    from hugr import envelope
    from hugr.envelope import EnvelopeConfig
    from tket.circuit import Tk2Circuit

    h = envelope.read_envelope(Tk2Circuit(circ).to_bytes(EnvelopeConfig.TEXT)).modules[0]
    md = h[h.entrypoint].metadata
    return list(md["TKET1.input_parameters"]) if "TKET1.input_parameters" in md else None


class QubitScript:
    """measure_oracle forcing outcomes per interpreter qubit id (= caller argument position)."""

    def __init__(self, per_qubit: dict):
        self.per = {int(k): list(v) for k, v in per_qubit.items()}
        self.unexpected = 0
        self.events = None  # interpreter event list: measurements after state_result are clean-up

    def __call__(self, q, p1):
        lst = self.per.get(q)
        if lst:
            return lst.pop(0)
        if self.events is None or not any(e[0] == "state_result" for e in self.events):
            self.unexpected += 1
        return 1 if p1 > 0.5 else 0


def run_case(job: dict) -> dict:
    """job = {"key", "shape", "ops", "nparams", "prep", "force": {qubit: [b..]}, "validate": bool}
    -> {"status", "ways": {way: {"end", "state", "bools", "valid"}}}"""
    import traceback

    import gp
    import runner
    from guppylang_internals.error import GuppyError
    from hugr_interp import Budget, Interp, InterpError, Unsupported

    res: dict = {"status": "ok", "ways": {}}
    mod = None
    key = job["key"]
    try:
        REG[key] = build_circuit(job["shape"], job["ops"])
        src = sources(key, job["shape"], job["nparams"], job["prep"])
        res["src"] = src
        res["param_order"] = metadata_param_order(REG[key]) if job.get("want_param_order") else None
        try:
            mod = gp.load(src, prelude=PRELUDE)
        except Exception as e:  # noqa: BLE001
            res.update(status="load_crash", error=runner.classify_exception(e))
            return res
        csizes = lex_sizes(job["shape"]["c"])
        nb = sum(csizes)
        for way in ("flat", "stub", "arr"):
            w: dict = {"end": None, "state": None, "bools": None}
            res["ways"][way] = w
            try:
                pkg = getattr(mod, "main_" + way).compile_function()
            except GuppyError as e:
                w.update(end="rejected", error=runner.classify_exception(e))
                continue
            except Exception as e:  # noqa: BLE001
                w.update(end="crash", error=runner.classify_exception(e))
                continue
            if job.get("validate"):
                try:
                    gp.validate(pkg)
                    w["valid"] = True
                except Exception as e:  # noqa: BLE001
                    w["valid"] = False
                    w["invalid_msg"] = runner.validation_msg(e)[:300]
            try:
                script = QubitScript(job["force"])
                it = Interp(pkg.modules[0], budget=200_000, measure_oracle=script)
                script.events = it.events
                out = it.run("main_" + way, [])
                w["end"] = "panic" if "panic" in out else "exit" if "exit" in out else "return"
                results = {}
                for e in out["events"]:
                    if e[0] == "state_result":
                        w["state"] = None if e[3] is None else [[a.real, a.imag] for a in e[3]]
                    elif e[0] == "result":
                        results[e[1]] = e[3]
                if way == "arr":
                    bools = []
                    for k in range(len(csizes)):
                        v = results.get(f"c{k}")
                        bools += [None] * csizes[k] if v is None else [bool(x) for x in v]
                        if v is not None and len(v) != csizes[k]:
                            w["bad_len"] = [k, len(v)]
                else:
                    bools = [results.get(f"b{k}") for k in range(nb)]
                w["bools"] = bools
                w["unforced_measurements"] = script.unexpected
                w["leftover_forced"] = sum(len(v) for v in script.per.values())
            except Budget:
                w["end"] = "budget"
            except Unsupported as e:
                w.update(end="unsupported", msg=str(e))
            except InterpError as e:
                w.update(end="interp_error", msg=str(e))
        return res
    except BaseException as e:  # noqa: BLE001
        res.update(status="machinery", error={"class": type(e).__name__, "msg": str(e)[:500],
                                               "tb": traceback.format_exc()[-2000:]})
        return res
    finally:
        REG.pop(key, None)
        if mod is not None:
            gp.unload(mod)


# ---------------------------------------------------------------------------------------
# signatures
# ---------------------------------------------------------------------------------------
def stub_src(key: str, cand: dict) -> str:
    ps = [f"q{i}: qubit" + (" @owned" if cand["v"] == "owned" and i == 0 else "") for i in range(cand["nq"])]
    ps += [f"a{i}: " + ("float" if cand["v"] == "float" and i == 0 else "angle") for i in range(cand["np"])]
    return f'@guppy.pytket(REG["{key}"])\ndef f({", ".join(ps)}) -> {ret_type(cand["nb"])}: ...\n'


def call_src(key: str, sizes: list, nparams: int) -> str:
    ps = [f"r{i}: array[qubit, {s}]" for i, s in enumerate(sizes)]
    args = [f"r{i}" for i in range(len(sizes))]
    if nparams:
        args.append("array(" + ", ".join(f"angle({(k + 1) / 4!r})" for k in range(nparams)) + ")")
    return (f'f = guppy.load_pytket("f", REG["{key}"], use_arrays=True)\n'
            f"@guppy\ndef caller({', '.join(ps)}) -> None:\n    f({', '.join(args)})\n")


def run_sigs(job: dict) -> dict:
    """job = {"key", "shape", "syms": [...], "cands": [cand..], "calls": [sizes..]} -> verdict per candidate"""
    import traceback

    import gp
    import runner
    from guppylang_internals.error import GuppyError

    out = {"status": "ok", "cands": [], "calls": []}
    key = job["key"]
    try:
        ops = [{"g": "rz", "qs": [0], "a": [["sym", s]], "bit": -1, "b": -1} for s in job["syms"]]
        REG[key] = build_circuit(job["shape"], ops)

        def verdict(src, entry):
            mod = None
            try:
                mod = gp.load(src, prelude=PRELUDE)
                getattr(mod, entry).check()
                return {"accept": True}
            except GuppyError as e:
                return {"accept": False, "error": runner.classify_exception(e)}
            except Exception as e:  # noqa: BLE001
                return {"accept": None, "error": runner.classify_exception(e)}
            finally:
                if mod is not None:
                    gp.unload(mod)

        for c in job["cands"]:
            out["cands"].append(verdict(stub_src(key, c), "f"))
        for sizes in job["calls"]:
            out["calls"].append(verdict(call_src(key, sizes, len(job["syms"])), "caller"))
        return out
    except BaseException as e:  # noqa: BLE001
        out.update(status="machinery", error={"class": type(e).__name__, "msg": str(e)[:500],
                                               "tb": traceback.format_exc()[-2000:]})
        return out
    finally:
        REG.pop(key, None)
