"""Record the dataflow analyses as they run *inside* /repo's checker on real programs.

With the guarded hooks (guppylang_internals/_verif.py) a scheduler decides every worklist
pop and a tracer sees every iteration.  From the analysis object and the blocks we
reconstruct the abstract graph the analysis ran on (so the real CFGBuilder's output is the
input), and the per-iteration trace in the format of spec/Dataflow_Trace.tla.
"""
from __future__ import annotations

import gp  # noqa: F401
from df_real import Sched  # noqa: F401
from guppylang_internals import _verif
from guppylang_internals.cfg.analysis import AssignmentAnalysis, LivenessAnalysis


class Recorder:
    def __init__(self):
        self.runs = {}  # id(analysis) -> dict
        self.order = []
        self._keep = []  # keep analysis objects alive so ids stay unique

    def __call__(self, site, **f):
        an = f["analysis"]
        rec = self.runs.get(id(an))
        if rec is None or rec.get("closed"):
            rec = self._open(an, f)
            self.runs[id(an)] = rec
            self.order.append(rec)
            self._keep.append(an)
        bb = f["bb"]
        vid = rec["vid"]
        bidx = rec["bidx"]
        q = sorted(bidx[b] for b in f["queue"])
        if rec["mode"] == "live":
            val = sorted([vid(x), self._ev(rec, e)] for x, e in f["vals_before"][bb].items())
            rec["steps"].append({"b": bidx[bb], "before": val, "queue": q})
            if not q:
                rec["final"] = [sorted([vid(x), self._ev(rec, e)] for x, e in f["vals_before"][b].items())
                                for b in rec["bbs"]]
                rec["closed"] = True
        else:
            d, m = f["vals_before"][bb]
            da, ma = f["vals_after"][bb]
            rec["steps"].append({"b": bidx[bb], "before": [sorted(map(vid, d)), sorted(map(vid, m))],
                                 "after": [sorted(map(vid, da)), sorted(map(vid, ma))], "queue": q})
            if not q:
                rec["final"] = [[sorted(map(vid, f["vals_before"][b][0])), sorted(map(vid, f["vals_before"][b][1]))]
                                for b in rec["bbs"]]
                rec["closed"] = True

    @staticmethod
    def _ev(rec, e):
        return rec["bidx"].get(e, 0)

    def _open(self, an, f):
        bbs = list(f["vals_before"].keys())
        allbbs = bbs
        bidx = {b: i + 1 for i, b in enumerate(allbbs)}
        names = {}

        def vid(x):
            if x not in names:
                names[x] = len(names) + 1
            return names[x]

        mode = "live" if isinstance(an, LivenessAnalysis) else "assign"
        assert mode == "live" or isinstance(an, AssignmentAnalysis)
        g = {
            "n": len(allbbs),
            "succ": [[bidx[s] for s in b.successors if s in bidx] for b in allbbs],
            "dsucc": [[bidx[s] for s in b.dummy_successors if s in bidx] for b in allbbs],
            "used": [sorted(vid(x) for x in an.stats[b].used) for b in allbbs],
            "assigned": [sorted(vid(x) for x in an.stats[b].assigned) for b in allbbs],
            "iu": bool(an.include_unreachable()),
        }
        if mode == "live":
            evs = {bidx.get(e, 0) for e in an._initial.values()}
            g.update(predef=[], premaybe=[], inout=sorted(vid(x) for x in an._initial),
                     iev=(evs.pop() if len(evs) == 1 else 0))
        else:
            g.update(predef=sorted(vid(x) for x in an.ass_before_entry),
                     premaybe=sorted(vid(x) for x in an.maybe_ass_before_entry), inout=[], iev=0)
        # edges to blocks outside the analysed set would make the abstraction unsound
        for b in allbbs:
            for s in list(b.successors) + list(b.predecessors):
                if s not in bidx:
                    g["partial"] = True
        rec = {"mode": mode, "graph": g, "steps": [], "final": None, "bbs": allbbs, "bidx": bidx,
               "vid": vid, "names": names}
        return rec

    def export(self):
        out = []
        for r in self.order:
            g = dict(r["graph"])
            g["nvars"] = max(1, len(r["names"]))
            out.append({"mode": r["mode"], "graph": g, "steps": r["steps"], "final": r["final"],
                        "names": {v: str(k) for k, v in r["names"].items()}, "closed": bool(r.get("closed"))})
        return out


def record_check(src: str, entry: str, policy="rand", seed=0, experimental=True):
    """check() a program under a scheduling policy. Returns (outcome, runs, sched choices)."""
    import guppylang_internals.experimental as ex
    from guppylang_internals.error import GuppyError

    import runner

    rec = Recorder()
    sched = Sched(policy, seed)
    old = _verif.scheduler, _verif.tracer
    _verif.scheduler, _verif.tracer = sched, rec
    prev = ex.EXPERIMENTAL_FEATURES_ENABLED
    ex.EXPERIMENTAL_FEATURES_ENABLED = experimental
    mod = None
    try:
        mod = gp.load(src)
        try:
            getattr(mod, entry).check()
            outcome = {"status": "ok"}
        except GuppyError as e:
            outcome = {"status": "rejected", "error": runner.classify_exception(e)}
            try:
                outcome["rendered"] = runner.render_error(e)
            except Exception as e2:  # noqa: BLE001
                outcome["render_crash"] = runner.classify_exception(e2)
        except Exception as e:  # noqa: BLE001
            outcome = {"status": "crash", "error": runner.classify_exception(e)}
    finally:
        _verif.scheduler, _verif.tracer = old
        ex.EXPERIMENTAL_FEATURES_ENABLED = prev
        if mod is not None:
            gp.unload(mod)
    return outcome, rec.export(), sched.choices
