"""C27 helpers: driver programs over Stack / PriorityQueue, script encoding, event projection.

A driver program is ONE compiled Guppy function per (kind, capacity, script length) whose
operation sequence is supplied at run time (arrays of op codes / values / priorities), so a
single compilation of the std-library code under test serves thousands of scripts.
"""
from __future__ import annotations

OPCODE = {"push": 1, "pop": 2, "peek": 3, "len": 4}

PRELUDE_EXTRA = (
    "from guppylang.std.collections import Stack, empty_stack, PriorityQueue, empty_priority_queue\n"
)


def driver_src(kind: str, cap: int, length: int) -> str:
    """Guppy source of the driver `main` for a collection of capacity `cap`, scripts <= length."""
    if kind == "pq":
        return PRELUDE_EXTRA + f'''
@guppy
def main(ops: array[int, {length}], vs: array[int, {length}], ps: array[int, {length}]) -> None:
    q: PriorityQueue[int, {cap}] = empty_priority_queue()
    for k in range({length}):
        op = ops[k]
        if op == 1:
            result("push", vs[k])
            q = q.push(vs[k], ps[k])
            result("pushed", ps[k])
        elif op == 2:
            result("pop", 0)
            p, v, q = q.pop()
            result("prio", p)
            result("val", v)
        elif op == 3:
            result("peek", 0)
            p, v, q = q.peek()
            result("prio", p)
            result("val", v)
        elif op == 4:
            result("len", len(q))
    result("end", len(q))
    while len(q) > 0:
        result("pop", 0)
        p, v, q = q.pop()
        result("prio", p)
        result("val", v)
    q.discard_empty()
    result("drained", 0)
'''
    if kind == "stack":
        return PRELUDE_EXTRA + f'''
@guppy
def main(ops: array[int, {length}], vs: array[int, {length}], ps: array[int, {length}]) -> None:
    s: Stack[int, {cap}] = empty_stack()
    for k in range({length}):
        op = ops[k]
        if op == 1:
            result("push", vs[k])
            s = s.push(vs[k])
            result("pushed", 0)
        elif op == 2:
            result("pop", 0)
            v, s = s.pop()
            result("val", v)
        elif op == 3:
            result("peek", 0)
            v, s = s.peek()
            result("val", v)
        elif op == 4:
            result("len", len(s))
    result("end", len(s))
    while len(s) > 0:
        result("pop", 0)
        v, s = s.pop()
        result("val", v)
    s.discard_empty()
    result("drained", 0)
'''
    raise ValueError(kind)


def encode(script: list, length: int) -> list:
    """script = [[name, p, v], ...] -> interpreter arguments [ops, vs, ps] (padded with no-ops)."""
    if len(script) > length:
        raise ValueError("script longer than the driver")
    pad = length - len(script)
    ops = [OPCODE[o[0]] for o in script] + [0] * pad
    ps = [o[1] for o in script] + [0] * pad
    vs = [o[2] for o in script] + [0] * pad
    return [ops, vs, ps]


def project(events: list) -> list:
    """Interpreter events -> [[tag, int], ...]; a panic/exit becomes ["panic", 0]."""
    out = []
    for e in events:
        if e[0] == "result":
            if e[2] not in ("int", "uint"):      # literal markers may be typed nat
                out.append(["non-int result " + str(e[1]), 0])
            else:
                out.append([e[1], e[3]])
        elif e[0] in ("panic", "exit"):
            out.append(["panic", 0])
        # other event kinds (drops of classical values) are not observable program output
    return out


def show(script: list) -> str:
    def one(o):
        return f"push({o[1]},{o[2]})" if o[0] == "push" else o[0]
    return " ".join(one(o) for o in script)


def nontrivial(script: list) -> bool:
    """A removal/peek happens while >= 2 entries are stored (ordering is observable)."""
    n = 0
    for o in script:
        if o[0] == "push":
            n += 1
        elif o[0] in ("pop", "peek"):
            if n >= 2:
                return True
            if o[0] == "pop" and n > 0:
                n -= 1
    return False
