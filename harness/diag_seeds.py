"""C02: corpus of well-typed Guppy programs (the starting points of the near-miss mutation
campaign).  Every seed must be accepted by /repo and lower to valid HUGR (checked by C02.py
before mutating; a seed that is not accepted is a machinery failure, not a finding).

The prelude below is exec'd in front of every program (gp.load); `entries=None` means every
top-level Guppy function of the module is compiled on its own.
"""

PRELUDE = """\
from typing import Generic, Callable
from guppylang import guppy, qubit, comptime
from guppylang.std.builtins import *
from guppylang.std.quantum import *
from guppylang.std.angles import angle, pi
from guppylang.std.option import Option, nothing, some
T = guppy.type_var("T")
U = guppy.type_var("U")
L = guppy.type_var("L", copyable=False, droppable=False)
n = guppy.nat_var("n")
K = 3

@guppy
def ident(x: T) -> T:
    return x

@guppy
def head(xs: array[T, n]) -> T:
    return xs[0]

@guppy
def keep(x: L @ owned) -> L:
    return x

@guppy
def first(p: tuple[T, U]) -> T:
    a, b = p
    return a

@guppy
def inc(x: int) -> int:
    return x + 1

@guppy
def twice(f: Callable[[int], int], x: int) -> int:
    return f(f(x))

@guppy.struct
class Box(Generic[T]):
    item: T
    count: int

@guppy.struct
class Point:
    x: int
    y: int

@guppy.struct
class Counter:
    n: int
    step: int

    @guppy
    def bump(self: "Counter") -> "Counter":
        return Counter(self.n + self.step, self.step)
"""

SEEDS = {}


def seed(name, src, experimental=False):
    SEEDS[name] = {"name": name, "src": src.lstrip("\n"), "experimental": experimental}


seed("arith", """
@guppy
def helper(a: int, b: int) -> int:
    c = a * b + 3
    d = c // 2 - a % 5
    return d << 1

@guppy
def main(x: int, y: float) -> float:
    z = helper(x, x + 1)
    w = float(z) * y
    if w > 2.5 and x != 0:
        w -= 1.0
    return -w / 3.0
""")

seed("ifelse", """
@guppy
def sign(x: int) -> int:
    if x > 0:
        r = 1
    elif x < 0:
        r = -1
    else:
        r = 0
    return r

@guppy
def main(x: int, b: bool) -> int:
    y = sign(x) if b else sign(-x)
    if not b or x == 3:
        return y + 1
    return y
""")

seed("while_loop", """
@guppy
def collatz(x: int) -> int:
    steps = 0
    while x != 1:
        if x % 2 == 0:
            x = x // 2
        else:
            x = 3 * x + 1
        steps += 1
        if steps > 1000:
            break
    return steps

@guppy
def main(a: int) -> int:
    total = 0
    i = 0
    while i < a:
        i += 1
        if i % 3 == 0:
            continue
        total += collatz(i)
    return total
""")

seed("for_range", """
@guppy
def main(k: int) -> int:
    acc = 0
    for i in range(10):
        for j in range(i):
            if j > k:
                break
            acc += i * j
    for m in range(2, 7):
        acc -= m
    return acc
""")

seed("tuples", """
@guppy
def swap(p: tuple[int, bool]) -> tuple[bool, int]:
    a, b = p
    return b, a

@guppy
def main(x: int) -> int:
    t = (x, True)
    u, v = swap(t)
    (a, (b, c)) = (1, (2.5, x))
    q = (a, b, c)
    if u:
        return v + q[0] + q[2]
    return t[0]
""")

seed("structs", """
@guppy.struct
class Point:
    x: int
    y: int

@guppy.struct
class Seg:
    a: Point
    b: Point
    tag: bool

@guppy
def norm1(p: Point) -> int:
    return abs(p.x) + abs(p.y)

@guppy
def main(k: int) -> int:
    p = Point(k, 2 * k)
    s = Seg(p, Point(0, 1), True)
    t = Seg(s.b, Point(s.a.y, 7), not s.tag)
    if t.tag or s.tag:
        return norm1(s.a) + norm1(s.b)
    return p.x
""")

seed("struct_methods", """
@guppy.struct
class Counter:
    n: int
    step: int

    @guppy
    def bump(self: "Counter") -> "Counter":
        return Counter(self.n + self.step, self.step)

    @guppy
    def value(self: "Counter") -> int:
        return self.n

@guppy
def main(k: int) -> int:
    c = Counter(0, k)
    for _ in range(3):
        c = c.bump()
    return c.value()
""")

seed("arrays", """
@guppy
def total(xs: array[int, 4] @ owned) -> int:
    s = 0
    for x in xs:
        s += x
    return s

@guppy
def main(k: int) -> int:
    xs = array(1, 2, 3, k)
    xs[0] = xs[1] + xs[2]
    ys = array(i * i for i in range(4))
    return ys[3] + len(ys) + total(xs)
""")

seed("array_nested", """
@guppy
def main(k: int) -> int:
    m = array(array(1, 2), array(3, k))
    m[0][1] = m[1][0]
    r = array(array(i + j for i in range(2)) for j in range(3))
    return m[0][1] + r[2][1]
""")

seed("qubits_basic", """
@guppy
def bell() -> tuple[bool, bool]:
    a = qubit()
    b = qubit()
    h(a)
    cx(a, b)
    return measure(a), measure(b)

@guppy
def main() -> int:
    c = 0
    for _ in range(4):
        x0, y0 = bell()
        if x0 == y0:
            c += 1
    return c
""")

seed("qubits_owned", """
@guppy
def prep(q: qubit @ owned, flip: bool) -> qubit:
    if flip:
        x(q)
    h(q)
    return q

@guppy
def consume(q: qubit @ owned) -> bool:
    r = measure(q)
    return r

@guppy
def main(b: bool) -> bool:
    q = qubit()
    q = prep(q, b)
    z(q)
    return consume(q)
""")

seed("qubits_branch", """
@guppy
def main(b: bool, c: bool) -> bool:
    q = qubit()
    r = qubit()
    if b:
        cx(q, r)
        res = measure(q)
    else:
        discard(q)
        res = False
    while c:
        h(r)
        c = project_z(r)
    discard(r)
    return res
""")

seed("qubit_arrays", """
@guppy
def layer(qs: array[qubit, 3]) -> None:
    for i in range(3):
        h(qs[i])
    cx(qs[0], qs[1])
    cx(qs[1], qs[2])

@guppy
def main() -> array[bool, 3]:
    qs = array(qubit() for _ in range(3))
    layer(qs)
    return measure_array(qs)
""")

seed("qubit_struct", """
@guppy.struct
class Pair:
    a: qubit
    b: qubit

@guppy
def entangle(p: Pair) -> None:
    h(p.a)
    cx(p.a, p.b)

@guppy
def main() -> bool:
    p = Pair(qubit(), qubit())
    entangle(p)
    m = measure(p.a)
    discard(p.b)
    return m
""")

seed("angles", """
@guppy
def rot(q: qubit, k: int) -> None:
    a = angle(0.5) + pi / 4
    for _ in range(k):
        rz(q, a)
        rx(q, -a)

@guppy
def main(k: int) -> bool:
    q = qubit()
    rot(q, k)
    return measure(q)
""")

seed("generics", """
@guppy
def ident(x: T) -> T:
    return x

@guppy
def first(p: tuple[T, U]) -> T:
    a, b = p
    return a

@guppy
def main(x: int, y: bool) -> int:
    a = ident(x)
    b = ident(y)
    c = first((a, b))
    d = first((2.5, c))
    return c + int(d)
""")

seed("generic_arrays", """
@guppy
def head(xs: array[T, n]) -> T:
    return xs[0]

@guppy
def size(xs: array[T, n]) -> int:
    return n

@guppy
def main(k: int) -> int:
    xs = array(k, 2, 3)
    ys = array(True, False)
    if head(ys):
        return head(xs) + size(ys)
    return size(xs)
""")

seed("generic_linear", """
@guppy
def keep(x: L @ owned) -> L:
    return x

@guppy
def main() -> bool:
    q = keep(qubit())
    h(q)
    return measure(keep(q))
""")

seed("generic_struct", """
@guppy.struct
class Box(Generic[T]):
    item: T
    count: int

@guppy
def unbox(b: Box[T]) -> T:
    return b.item

@guppy
def main(k: int) -> int:
    b = Box(k, 1)
    c = Box((True, 2.0), 2)
    f, g = unbox(c)
    if f:
        return unbox(b) + c.count
    return b.count
""")

seed("higher_order", """
@guppy
def inc(x: int) -> int:
    return x + 1

@guppy
def twice(f: Callable[[int], int], x: int) -> int:
    return f(f(x))

@guppy
def main(k: int) -> int:
    g = inc
    return twice(g, k) + twice(inc, 3)
""")

seed("nested_funcs", """
@guppy
def main(k: int) -> int:
    def sq(a: int) -> int:
        return a * a

    def addk(a: int) -> int:
        def inner(b: int) -> int:
            return b + 1
        return inner(a) + inner(a + 1)

    r = 0
    for i in range(3):
        r += addk(i)
    return r + sq(k)
""")

seed("nested_capture", """
@guppy
def main(k: int, b: bool) -> int:
    base = k * 2

    def shifted(a: int) -> int:
        return a + base

    if b:
        return shifted(1)
    return shifted(shifted(2))
""", experimental=True)

seed("comprehension", """
@guppy
def main(k: int) -> int:
    xs = array(i * k for i in range(5))
    ys = array(x + 1 for x in xs)
    zs = array((x, x + 1) for x in range(6))
    s = 0
    for a, b in zs:
        s += a * b
    return s + ys[4]
""")

seed("option", """
@guppy
def find(xs: array[int, 4], t: int) -> Option[int]:
    for i in range(4):
        if xs[i] == t:
            return some(i)
    return nothing()

@guppy
def main(k: int) -> int:
    r = find(array(5, 6, 7, 8), k)
    if r.is_some():
        return r.unwrap()
    return -1
""")

seed("results_panic", """
@guppy
def check(x: int) -> int:
    if x < 0:
        panic("negative input", x)
    return x

@guppy
def main(k: int) -> None:
    v = check(k)
    result("value", v)
    result("flag", v > 2)
    result("ratio", 0.5 * v)
    result("arr", array(v, v + 1))
""")

seed("comptime_expr", """
@guppy
def main(k: int) -> int:
    a = comptime(K + 1)
    xs = comptime([1, 2, 3])
    t = comptime((True, 2.5))
    s = a
    for x in xs:
        s += x
    if t[0]:
        s += k
    return s
""")

seed("strings_none", """
@guppy
def nothing_to_do(x: int) -> None:
    pass

@guppy
def main(k: int) -> None:
    r = nothing_to_do(k)
    s = "label"
    t = s
    result("label", k)
    return r
""")

seed("inout_borrow", """
@guppy
def bump(xs: array[int, 2]) -> None:
    xs[0] += 1
    xs[1] = xs[0]

@guppy
def touch(q: qubit, r: qubit) -> None:
    cx(q, r)

@guppy
def main() -> int:
    xs = array(1, 2)
    bump(xs)
    a = qubit()
    b = qubit()
    touch(a, b)
    touch(b, a)
    discard(a)
    discard(b)
    return xs[1]
""")

seed("nat_float", """
@guppy
def main(a: nat, x: float) -> float:
    b = a + nat(2)
    c = int(b) - 5
    d = x ** 2.0 + float(c)
    e = d if d >= 0.0 else -d
    f = int(e) // 3
    g = bool(f)
    return e + float(f) + (1.0 if g else 0.0)
""")

seed("early_exit_unreachable", """
@guppy
def main(k: int) -> int:
    if k > 3:
        return 1
    else:
        return 2
    y = k + 1
    return y
""")

seed("mixed", """
@guppy.struct
class Reg:
    qs: array[qubit, 2]
    hits: int

@guppy
def step(r: Reg, flip: bool) -> None:
    if flip:
        x(r.qs[0])
    cx(r.qs[0], r.qs[1])

@guppy
def main(rounds: int) -> int:
    r = Reg(array(qubit(), qubit()), 0)
    i = 0
    while i < rounds:
        step(r, i % 2 == 0)
        i += 1
    hits = r.hits + i
    bs = measure_array(r.qs)
    if bs[0] and not bs[1]:
        hits += 10
    return hits
""")

seed("declared", """
@guppy.declare
def ext(x: int, q: qubit) -> bool: ...

@guppy.declare
def make(k: int) -> array[qubit, 2]: ...

@guppy
def main(k: int) -> bool:
    qs = make(k)
    a, b = qs
    r = ext(k, a)
    discard(a)
    discard(b)
    return r
""")

seed("list_comprehension", """
@guppy
def main(xs: list[int], k: int) -> list[int]:
    ys = [x + k for x in xs if x > 0]
    zs = [y * z for y in ys for z in [1, 2, 3] if y != z]
    return zs
""", experimental=True)
