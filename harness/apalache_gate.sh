#!/bin/sh
# Inductive-invariant check of spec/apalache/GateInd.tla with Apalache (unbounded histories, nesting <= 3).
# exit 0 = Init => IndInv and IndInv /\ Next => IndInv' both hold; 1 = refuted; 2 = apalache failed.
cd "$(dirname "$0")/../spec/apalache" || exit 2
OUT=$(mktemp -d /tmp/apa_gate.XXXXXX)
a=$(timeout 900 apalache-mc check --init=Init --inv=IndInv --length=0 --out-dir=$OUT MC_GateInd.tla 2>&1 | grep -E "EXITCODE" | tail -1)
b=$(timeout 900 apalache-mc check --init=IndInit --inv=IndInv --length=1 --out-dir=$OUT MC_GateInd.tla 2>&1 | grep -E "EXITCODE" | tail -1)
rm -rf $OUT
echo "base: $a ; step: $b"
case "$a$b" in *"EXITCODE: OK"*"EXITCODE: OK"*) exit 0;; *ERROR*) exit 1;; *) exit 2;; esac
