"""Shared driver for the numeric trace checks (C04, C16): run forms on the pool, attach
the CPython oracle, write the JSON trace, run spec/NumOps_Trace.tla, parse its verdicts."""
from __future__ import annotations

import json
import os

import lib
import num_forms as nf
import num_values as nv
import pool

NCHUNKS = 32


def execute(forms: list[dict], tier: str, seed: int, validate: bool = True, operand_fn=None, per_job: int = 24) -> list[dict]:
    """-> per-form results (see num_forms.run_forms_job), in form order"""
    operand_fn = operand_fn or nf.operands
    jobs = []
    for i in range(0, len(forms), per_job):
        chunk = forms[i:i + per_job]
        jobs.append({"forms": chunk, "tier": tier, "seed": seed, "validate": validate,
                     "operands": {str(f["idx"]): operand_fn(f, tier, seed) for f in chunk}})
    out = []
    for r in pool.map_jobs(nf.run_forms_job, jobs, chunksize=1):
        out.extend(r)
    return out


def flat(v: dict) -> list:
    """value record -> flat tuple <<limbs..., s, e, x>> (compact JSON; see NumOps_Trace!Val)"""
    return [*v["w"], v["s"], v["e"], v["x"]]


def spec_form(f: dict) -> dict:
    return {"op": f["op"], "ta": f["ta"], "tb": f["tb"], "blit": f["blit"], "lneg": f["lneg"]}


def build_trace(forms: list[dict], results: list[dict]):
    """-> (trace dict for TLC, meta list parallel to trace['events'], machinery problems)"""
    by_idx = {f["idx"]: f for f in forms}
    tforms, events, meta, problems = [], [], [], []
    for res in results:
        if res["status"] != "ok":
            continue
        f = by_idx[res["idx"]]
        tforms.append(spec_form(f))
        fi = len(tforms)
        for ev in res["events"]:
            if ev["end"] == "machinery":
                problems.append(f"{f['key']} on {ev['a']!r},{ev['b']!r}: {ev['msg']}")
                continue
            a, b = ev["a"], ev["b"]
            try:
                py = nv.py_expected(f, a, b)
            except nv.OracleError as e:
                problems.append(f"{f['key']} on {a!r},{b!r}: {e}")
                continue
            pe = nv.enc_expected(py)
            rec = {"f": fi, "a": flat(nv.enc(f["ta"], a)), "b": flat(nv.enc(f["tb"], 0 if b is None else b)),
                   "tr": res["rty"], "end": ev["end"],
                   "r": flat(nv.enc(res["rty"], ev["r"]) if ev["end"] == "ret" else nv.enc_word(0)),
                   "pd": pe["def"], "pt": pe["ty"], "pv": flat(pe["v"])}
            events.append(rec)
            meta.append({"form": f["idx"], "a": a, "b": b, "r": ev.get("r"), "end": ev["end"], "msg": ev.get("msg"),
                         "py": py, "rty": res["rty"]})
    return {"forms": tforms, "events": events}, meta, problems


def validate(ctx, trace: dict, name: str = "numops_trace.json", timeout: int = 3000):
    """Run NumOps_Trace on the trace. -> (bad, oracle, n_required, n_skipped); bad/oracle are lists of
    (event index, spec's expected record)."""
    if not trace["events"]:
        raise lib.Machinery("empty numeric trace")
    path = os.path.join(ctx.workdir, name)
    with open(path, "w") as fh:
        json.dump(trace, fh)
    # deep (non tail) recursion of the limb operators: give TLC's worker threads a larger stack
    r = ctx.tlc("NumOps_Trace", env={"VERIF_TRACE": path, "JAVA_TOOL_OPTIONS": "-Xmx8g -XX:+UseParallelGC -Xss64m"},
                timeout=timeout)
    acc = {p["accepted"]: p for p in r.printed if isinstance(p, dict) and "accepted" in p}
    if len(acc) != NCHUNKS:
        raise lib.Machinery(f"NumOps_Trace consumed {len(acc)} of {NCHUNKS} chunks:\n{r.error or r.out[-2000:]}")
    nok = sum(p["ok"] for p in acc.values())
    nskip = sum(p["skip"] for p in acc.values())
    if nok + nskip != len(trace["events"]):
        raise lib.Machinery(f"NumOps_Trace evaluated {nok + nskip} of {len(trace['events'])} events")
    bad = [(p["bad"], p["exp"]) for p in r.printed if isinstance(p, dict) and "bad" in p]
    orc = [(p["oracle"], p["exp"]) for p in r.printed if isinstance(p, dict) and "oracle" in p]
    return bad, orc, nok, nskip


def show_exp(exp: dict):
    """spec's expected record -> printable Python value"""
    if not exp["def"]:
        return "undefined"
    v = nv.dec(exp["ty"], exp["v"])
    return f"{exp['ty']}:{float(v) if exp['ty'] == 'float' else v}"


DUNDER = {"+": "add", "-": "sub", "*": "mul", "/": "truediv", "//": "floordiv", "%": "mod", "**": "pow", "pow": "pow",
          "<<": "lshift", ">>": "rshift", "&": "and", "|": "or", "^": "xor", "==": "eq", "!=": "ne", "<": "lt",
          "<=": "le", ">": "gt", ">=": "ge", "divmod0": "divmod", "divmod1": "divmod", "neg": "neg", "pos": "pos",
          "inv": "invert", "abs": "abs", "not": "bool", "bool": "bool", "int": "int", "nat": "nat", "float": "float",
          "floor": "floor", "ceil": "ceil", "trunc": "trunc"}


def method_of(f: dict) -> str:
    """the std method a form ends up in (stable identifier of the failing call site)"""
    return f"{nv.op_type(f)}.__{DUNDER.get(f['op'], f['op'])}__"


def replay_case(src: str, a, b, lit_left: bool = False):
    """compile `src` (function f) from /repo and call it on (a, b) -> outputs or panic"""
    import gp
    import runner
    from hugr_interp import Interp

    mod = gp.load(src)
    try:
        pkg = mod.f.compile_function()
        nparams = src.split("def f(")[1].split(")")[0].count(":")
        args = [x for x in (a, b) if x is not None][:nparams]
        if nparams == 1 and lit_left:
            args = [b]
        out = Interp(pkg.modules[0]).run("f", [runner.to_interp(x) for x in args])
        return out.get("outputs", out.get("panic"))
    finally:
        gp.unload(mod)
