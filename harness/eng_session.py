"""C11: one interpreter session over the pool (eng_pool) - execute public engine calls and
project the engine state.  Used inside forked children (eng_engine.py) and in a fresh
subprocess for the reference digests.
"""
from __future__ import annotations

import gp  # noqa: F401
import eng_canon
import eng_pool

_S: dict = {}


def setup() -> None:
    """Import guppylang, enable experimental features (closures), define the pool once."""
    if _S:
        return
    import guppylang.std.builtins  # noqa: F401
    import guppylang_internals.experimental as ex
    from guppylang_internals.engine import DEF_STORE

    ex.EXPERIMENTAL_FEATURES_ENABLED = True
    mod = gp.load(eng_pool.SRC, name="verif_pool", prelude=eng_pool.PRELUDE)
    own = {}
    for name, obj in mod.__dict__.items():
        if name in eng_pool.OWN and hasattr(obj, "wrapped") and hasattr(obj, "id"):
            own[obj.id] = name
    if sorted(own.values()) != sorted(eng_pool.OWN):
        raise RuntimeError(f"pool definitions not found: {sorted(set(eng_pool.OWN) - set(own.values()))}")
    _S.update(mod=mod, own=own, pt=mod.Pt.id)
    import gc

    gc.collect()
    gc.freeze()  # fewer copy-on-write faults in the forked sessions


def name_of(did) -> str | None:
    from guppylang_internals.engine import DEF_STORE

    own = _S["own"]
    if did in own:
        return own[did]
    par = DEF_STORE.impl_parents.get(did)
    if par is not None and par in own:
        return f"{own[par]}.{DEF_STORE.raw_defs[did].name}"
    return None


def project() -> dict:
    from guppylang_internals.engine import DEF_STORE, ENGINE
    from guppylang_internals.tracing.state import tracing_active

    def names(keys):
        out = []
        for k in keys:
            nm = name_of(k[0] if isinstance(k, tuple) else k)
            if nm is not None:
                out.append(nm)
        return sorted(out)

    return {"parsed": names(ENGINE.parsed), "checked": names(ENGINE.checked), "compiled": names(ENGINE.compiled),
            "worklist": names(ENGINE.to_check_worklist) + names(ENGINE.types_to_check_worklist),
            # generated methods registered for the pool's struct so far in this session (DEF_STORE growth)
            "store": sum(1 for i, par in DEF_STORE.impl_parents.items()
                         if par == _S["pt"] and DEF_STORE.raw_defs[i].name == "__new__"),
            "tracing_active": tracing_active()}


def classify(e: BaseException) -> str:
    from guppylang_internals.error import GuppyError

    if isinstance(e, GuppyError):
        d = e.error
        return "rejected:" + str(getattr(d, "rendered_title", None) or getattr(d, "title", type(d).__name__))
    return "raised:" + type(e).__name__


def step(op: str, d: str, want_text: bool = False) -> dict:
    """op in {"check", "compile", "entry"}; returns outcome, digest (successful compile), projected state."""
    setup()
    defn = getattr(_S["mod"], d)
    res: dict = {"op": op, "d": d}
    try:
        if op == "check":
            defn.check()
            pkg = None
        elif op == "compile":
            pkg = defn.compile_function()
        elif op == "entry":
            pkg = defn.compile()
        else:
            raise ValueError(op)
        res["outcome"] = "ok"
        if pkg is not None:
            c = eng_canon.canon(pkg.modules[0])
            import hashlib

            res["digest"] = hashlib.sha256(c["text"].encode()).hexdigest()[:20]
            res["n_nodes"] = c["n_nodes"]
            if want_text:
                res["text"] = c["text"]
    except BaseException as e:  # noqa: BLE001
        res["outcome"] = classify(e)
    res["state"] = project()
    return res


if __name__ == "__main__":
    # reference mode: fresh interpreter, one op; prints one JSON line
    import json
    import sys

    r = step(sys.argv[1], sys.argv[2], want_text=len(sys.argv) > 3)
    print("REF " + json.dumps(r))
