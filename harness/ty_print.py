"""C31 helpers: tokeniser, construction of types with binders, observers of the real printer/parser.

No expected outcome is computed here; observations go to spec/TypePrint_Trace.tla.
"""
from __future__ import annotations

import re

import ty_terms as TT

_TOK = re.compile(r"\s*(?:(->)|([A-Za-z_][A-Za-z_0-9]*(?:'[0-9]+)?)|([0-9]+)|([()\[\],.:?@]))")


def tokenize(text: str) -> list:
    """Printed type text -> tokens ["id", name] | ["p", punct] | ["n", int] (["bad", rest] if unknown)."""
    out, i = [], 0
    text = text.rstrip()
    while i < len(text):
        m = _TOK.match(text, i)
        if not m:
            out.append(["bad", text[i:]])
            break
        if m.group(1):
            out.append(["p", "->"])
        elif m.group(2):
            out.append(["id", m.group(2)])
        elif m.group(3):
            out.append(["n", int(m.group(3))])
        else:
            out.append(["p", m.group(4)])
        i = m.end()
    return out


def detokenize(toks: list) -> str:
    return " ".join(str(t[1]) for t in toks)


def to_real_names(t, params=None):
    """Terms of TypePrint.NameUniverse -> real types (FunctionType with params, existentials)."""
    from guppylang_internals.tys import ty as T
    from guppylang_internals.tys.arg import ConstArg, TypeArg
    from guppylang_internals.tys.param import ConstParam, TypeParam

    nat = T.NumericType(T.NumericType.Kind.Nat)
    tag = t[0]
    if tag == "gfun":
        _, uid, ps, (ins, out) = t
        ps_real = [TypeParam(i, d, False, False) if k == "type" else ConstParam(i, d, nat)
                   for i, (d, k) in enumerate(ps)]
        env = {(uid, i): p for i, p in enumerate(ps_real)}
        env.update(params or {})
        inputs = []
        for x in ins:
            r = to_real_names(x, env)
            inputs.append(T.FuncInput(r, T.InputFlags.NoFlags if r.copyable else T.InputFlags.Inout))
        return T.FunctionType(inputs, to_real_names(out, env), ps_real)
    if tag == "b":
        p = (params or {})[(t[1], t[2])]
        b = p.to_bound()
        return b.ty if isinstance(b, TypeArg) else b.const
    if tag == "ex":
        return T.ExistentialTypeVar(t[2], 5_000_000 + t[1], True, True)
    if tag == "tup":
        return T.TupleType([to_real_names(x, params) for x in t[1]])
    if tag == "opq":
        args = []
        for a in t[2]:
            r = to_real_names(a, params)
            args.append(TypeArg(r) if isinstance(r, T.TypeBase) else ConstArg(r))
        return T.OpaqueType(args, TT.world().opaque[t[1]])
    return TT.to_real(t)


def read_back(text: str):
    """Real parser on `text`; projection of the result or ["err"]."""
    from guppylang_internals.error import GuppyError

    try:
        return TT.from_real(TT.parse_annotation(text)), None
    except (GuppyError, SyntaxError) as e:
        return ["err"], type(getattr(e, "error", e)).__name__


def observe_case(c: dict) -> dict:
    if c["kind"] == "type":
        ty = TT.to_real(c["t"])
        text = str(ty)
        back, why = read_back(text)
        reftext = detokenize(c["ref"])
        refback, rwhy = read_back(reftext)
        return {"id": c["id"], "kind": "type", "t": c["t"], "w": tokenize(text), "back": back,
                "refback": refback, "text": text, "reftext": reftext, "why": why or rwhy}
    ty = to_real_names(c["t"])
    text = str(ty)
    return {"id": c["id"], "kind": "names", "t": c["t"], "w": tokenize(text), "text": text}


def observe_chunk(cs: list) -> list:
    TT.world()
    return [observe_case(c) for c in cs]


def shape(t, top=True) -> str:
    """Skeleton of the offending construct (for grouping failing cases into stable keys):
    tuples by arity class, parametrised types as X[...] with the shapes of tuple arguments."""
    tag = t[0]
    if tag == "tup":
        n = len(t[1])
        return "(_,)" if n == 1 else ("()" if n == 0 else "(_, _..)")
    if tag in ("opq", "struct") and t[2] and top:
        return "X[" + ", ".join(shape(x, False) for x in t[2]) + "]"
    return "_"
