"""C28 helpers: drive /repo's guppylang.emulator (EmulatorBuilder / EmulatorInstance) with real selene.

selene cannot load HUGR compiled by /repo's compiler, so the coin-flip package is compiled once in a
subprocess by the site-packages guppylang (plain /venv/bin/python, no PYTHONPATH, no shim); only the
*emulator layer* under test comes from /repo.

A history is the JSON the TLA+ spec (spec/Emulator.tla, operator Expected) prints:
  hist  [{op, c, v}]          steps; c = 1-based index of the config the method is called on
  cfgs  [{kind, seed, simseed, shots, off, inc}]   expected value of every config (0 = None)
  runs  [{step, c, shots: [label]}]  expected per-shot labels of every run step
  audit [[label]]             expected labels of a final run of every config
"""
from __future__ import annotations

import os
import shutil
import subprocess
import sys

N_FLIPS = 8
N_QUBITS = 2

_COMPILE_SRC = f"""
import sys
from guppylang import guppy
from guppylang.std.quantum import qubit, h, measure
from guppylang.std.builtins import result
import guppylang
assert "site-packages" in guppylang.__file__, guppylang.__file__

@guppy
def main() -> None:
    for i in range({N_FLIPS}):
        q = qubit()
        h(q)
        result("c", measure(q).read())

open(sys.argv[1], "wb").write(main.compile().to_bytes())
"""


def compile_package(path: str) -> None:
    """Compile the coin-flip program with the site-packages guppylang in a clean subprocess."""
    env = {k: v for k, v in os.environ.items() if not k.startswith("PYTHON") and k != "CQCL_GUPPYLANG_VERIF"}
    script = path + ".compile.py"
    with open(script, "w") as f:
        f.write(_COMPILE_SRC)
    p = subprocess.run(["/venv/bin/python", script, path], env=env, capture_output=True, text=True,
                       cwd=os.path.dirname(path), timeout=300)
    if p.returncode != 0 or not os.path.exists(path):
        raise RuntimeError("compiling the coin-flip package failed:\n" + p.stdout[-1500:] + p.stderr[-1500:])


class Driver:
    """One selene build + the real EmulatorInstance API of /repo."""

    def __init__(self, pkg_path: str, build_dir: str):
        import gp  # noqa: F401  (shim + /repo on sys.path + import assertion)
        import guppylang.emulator as ge
        import guppylang.emulator.instance as gi
        from hugr.package import Package
        from selene_sim.backends.bundled_simulators import Coinflip, Quest, Stim

        repo = os.path.realpath(os.environ.get("VERIF_REPO", "/repo"))
        if not os.path.realpath(gi.__file__).startswith(repo + os.sep):
            raise RuntimeError(f"guppylang.emulator resolved to {gi.__file__}, not under {repo}")
        self.kinds = {"Quest": Quest, "Stim": Stim, "Coinflip": Coinflip}
        self.EmulatorInstance = gi.EmulatorInstance
        pkg = Package.from_bytes(open(pkg_path, "rb").read())
        os.makedirs(build_dir, exist_ok=True)
        from pathlib import Path

        self.built = ge.EmulatorBuilder().with_build_dir(Path(build_dir)).build(pkg, n_qubits=N_QUBITS)
        self.nruns = 0

    # -- projection of a real config onto the model's record -----------------------------------
    def kind_of(self, sim) -> str:
        for k, cls in self.kinds.items():
            if isinstance(sim, cls):
                return k
        return type(sim).__name__

    def project(self, inst, simids=None) -> dict:
        sim = inst.simulator
        seed = inst.seed
        rs = getattr(sim, "random_seed", None)
        # selene: a component's own random_seed wins over run_shots(random_seed=...)
        eff = rs if rs is not None else seed
        z = lambda x: 0 if x is None else x
        out = {"kind": self.kind_of(sim), "seed": z(seed), "simseed": z(eff), "shots": inst.shots,
               "off": inst.shot_offset, "inc": inst.shot_increment}
        if simids is not None:
            # identity of the simulator object (not compared with the spec; used to attribute a deviation of a
            # newly derived config to an object that was already polluted)
            out["simid"] = simids.setdefault(id(sim), len(simids) + 1)
        return out

    # -- fresh objects per history (so one history cannot contaminate the next) ------------------
    def fresh_base(self):
        # exactly what EmulatorBuilder.build returns: default options around the built selene instance
        return self.EmulatorInstance(_instance=self.built._instance, _n_qubits=self.built.n_qubits)

    def fresh_pool(self):
        return [self.kinds["Quest"](), self.kinds["Stim"]()]

    def run(self, inst) -> list[str]:
        res = inst.run()
        self.nruns += 1
        if self.nruns % 200 == 0:
            self.clean()
        return ["".join(str(int(v)) for _t, v in shot.entries) for shot in res.results]

    def clean(self):
        runs = self.built._instance.runs
        for d in os.listdir(runs):
            shutil.rmtree(os.path.join(runs, d), ignore_errors=True)

    def apply(self, inst, pool, op: str, v: int):
        if op == "with_seed":
            return inst.with_seed(None if v == 0 else v)
        if op == "with_shots":
            return inst.with_shots(v)
        if op == "with_shot_offset":
            return inst.with_shot_offset(v)
        if op == "with_shot_increment":
            return inst.with_shot_increment(v)
        if op in ("statevector_sim", "stabilizer_sim", "coinflip_sim"):
            return getattr(inst, op)()
        if op == "with_simulator":
            return inst.with_simulator(pool[v - 1])
        raise ValueError(op)

    def replay(self, h: dict, execute: bool = True) -> dict:
        """replay_once, repeated once if it raised (a loaded machine can make a selene start fail)."""
        obs = self.replay_once(h, execute)
        if obs["error"]:
            first = obs["error"]
            obs = self.replay_once(h, execute)
            if obs["error"]:
                obs["error_first_attempt"] = first
        return obs

    def replay_once(self, h: dict, execute: bool = True) -> dict:
        """Drive one history; returns observations only (the comparison is done by the caller
        against the TLC-printed expectation, see compare()).  With execute=False the derivations are
        performed and projected but selene is not started (run steps have no effect on configs)."""
        cfgs = [self.fresh_base()]
        pool = self.fresh_pool()
        obs = {"proj": [], "runs": [], "audit": [], "error": None, "executed": execute}
        simids: dict = {}
        try:
            for step in h["hist"]:
                src = cfgs[step["c"] - 1]
                if step["op"] == "run":
                    if execute:
                        obs["runs"].append(self.run(src))
                else:
                    cfgs.append(self.apply(src, pool, step["op"], step["v"]))
                obs["proj"].append([self.project(c, simids) for c in cfgs])
            if execute:
                for i, c in enumerate(cfgs):
                    # audit: a final run of every config the specification predicts a result for
                    seeded = h["audit"][i] and h["audit"][i][0]["kind"] != "nondet"
                    obs["audit"].append(self.run(c) if seeded else None)
        except Exception as e:  # noqa: BLE001
            import traceback

            obs["error"] = f"{type(e).__name__}: {e}\n{traceback.format_exc()[-1200:]}"
            obs["error_env"] = isinstance(e, (OSError, MemoryError, TimeoutError))
        return obs


# ------------------------------------------------------------------------------------------------
# comparison of observations with the specification's expectation (pure data, used by C28.py)
# ------------------------------------------------------------------------------------------------
FIELDS = ("kind", "seed", "simseed", "shots", "off", "inc")


def label_key(l: dict) -> str:
    return f"{l['kind']}:{l['seed']}:{l['idx']}"


def compare(h: dict, obs: dict) -> tuple[list[dict], list[tuple]]:
    """-> (structural mismatches, [(label, bits, clean)] claims of seeded shots; clean = the projection of the
    config that was run agreed with the specification at that moment).
    Structural mismatches: projection of a live config differs from the spec's value, wrong number of
    shots, malformed shot. Seeded claims are resolved globally by the caller (same label => same bits)."""
    bad: list[dict] = []
    claims: list[tuple] = []
    if obs["error"]:
        bad.append({"kind": "exception", "key": "exception:" + obs["error"].split(":")[0], "detail": obs["error"]})
        return bad, claims
    nlive = 1
    prev: set = set()
    for k, step in enumerate(h["hist"]):
        derives = step["op"] != "run"
        if derives:
            nlive += 1
        got = obs["proj"][k]
        if len(got) != nlive:
            bad.append({"kind": "machinery", "key": "live-count", "detail": f"step {k}: {len(got)} configs, expected {nlive}"})
            continue
        cur = {(i, f) for i in range(nlive) for f in FIELDS if got[i][f] != h["cfgs"][i][f]}
        for i, f in sorted(cur - prev):
            exp = h["cfgs"][i]
            newest = derives and i == nlive - 1
            if newest:
                # a new config that merely copies / shares state that already deviates is a consequence of the
                # step that introduced the deviation, which has been reported there
                src = step["c"] - 1
                shares = [j for j in range(nlive - 1) if got[j].get("simid") == got[i].get("simid")]
                if (src, f) in cur or (f == "simseed" and any((j, f) in cur for j in shares)):
                    continue
            who = "derived" if newest else "earlier"
            bad.append({"kind": "projection", "key": f"{who}:{step['op']}:{f}", "step": k + 1, "config": i + 1,
                        "field": f, "expected": exp[f], "observed": got[i][f],
                        "detail": f"after step {k + 1} ({step['op']}({step['v']}) on config {step['c']}): "
                                  f"{'the derived' if newest else 'EARLIER'} config {i + 1} has {f}={got[i][f]}, "
                                  f"specification says {exp[f]}"})
        prev = cur
    def clean_at(k, ci):
        got = obs["proj"][k][ci]
        return all(got[f] == h["cfgs"][ci][f] for f in FIELDS)

    def shots(where, labels, bits, clean):
        if len(bits) != len(labels):
            bad.append({"kind": "shots", "key": "run:shot-count", "detail": f"{where}: {len(bits)} shots, spec says {len(labels)}"})
            return
        for l, b in zip(labels, bits):
            if len(b) != N_FLIPS or set(b) - {"0", "1"}:
                bad.append({"kind": "shots", "key": "run:malformed-shot", "detail": f"{where}: shot {b!r}"})
            elif l["kind"] != "nondet":
                claims.append((label_key(l), b, clean))

    if obs.get("executed", True):
        if len(obs["runs"]) != len(h["runs"]):
            bad.append({"kind": "machinery", "key": "run-count", "detail": "number of executed run steps"})
        for r, bits in zip(h["runs"], obs["runs"]):
            shots(f"run at step {r['step']} of config {r['c']}", r["shots"], bits, clean_at(r["step"] - 1, r["c"] - 1))
        for i, bits in enumerate(obs["audit"]):
            if bits is not None:
                shots(f"audit run of config {i + 1}", h["audit"][i], bits, clean_at(len(h["hist"]) - 1, i))
    return bad, claims
    nlive = 1
    prev: set = set()
    for k, step in enumerate(h["hist"]):
        derives = step["op"] != "run"
        if derives:
            nlive += 1
        got = obs["proj"][k]
        if len(got) != nlive:
            bad.append({"kind": "machinery", "key": "live-count", "detail": f"step {k}: {len(got)} configs, expected {nlive}"})
            continue
        cur = {(i, f) for i in range(nlive) for f in FIELDS if got[i][f] != h["cfgs"][i][f]}
        for i, f in sorted(cur - prev):
            exp = h["cfgs"][i]
            newest = derives and i == nlive - 1
            if newest:
                # a new config that merely copies / shares state that already deviates is a consequence of the
                # step that introduced the deviation, which has been reported there
                src = step["c"] - 1
                shares = [j for j in range(nlive - 1) if got[j].get("simid") == got[i].get("simid")]
                if (src, f) in cur or (f == "simseed" and any((j, f) in cur for j in shares)):
                    continue
            who = "derived" if newest else "earlier"
            bad.append({"kind": "projection", "key": f"{who}:{step['op']}:{f}", "step": k + 1, "config": i + 1,
                        "field": f, "expected": exp[f], "observed": got[i][f],
                        "detail": f"after step {k + 1} ({step['op']}({step['v']}) on config {step['c']}): "
                                  f"{'the derived' if newest else 'EARLIER'} config {i + 1} has {f}={got[i][f]}, "
                                  f"specification says {exp[f]}"})
        prev = cur
    def shots(where, labels, bits):
        if len(bits) != len(labels):
            bad.append({"kind": "shots", "key": f"run:shot-count", "detail": f"{where}: {len(bits)} shots, spec says {len(labels)}"})
            return
        for l, b in zip(labels, bits):
            if len(b) != N_FLIPS or set(b) - {"0", "1"}:
                bad.append({"kind": "shots", "key": "run:malformed-shot", "detail": f"{where}: shot {b!r}"})
            elif l["kind"] != "nondet":
                claims.append((label_key(l), b))
    if obs.get("executed", True):
        if len(obs["runs"]) != len(h["runs"]):
            bad.append({"kind": "machinery", "key": "run-count", "detail": "number of executed run steps"})
        for r, bits in zip(h["runs"], obs["runs"]):
            shots(f"run at step {r['step']} of config {r['c']}", r["shots"], bits)
        for i, bits in enumerate(obs["audit"]):
            if bits is not None:
                shots(f"audit run of config {i + 1}", h["audit"][i], bits)
    return bad, claims


# ------------------------------------------------------------------------------------------------
# pool worker
# ------------------------------------------------------------------------------------------------
_DRV: Driver | None = None
_HOME = None


def prepare(pkg: str, builddir: str) -> None:
    """Build once in the parent; forked workers re-home the selene run directory (see worker_chunk)."""
    global _DRV
    if _DRV is None:
        _DRV = Driver(pkg, os.path.join(builddir, "build"))


def worker_chunk(job: dict) -> list[dict]:
    global _DRV, _HOME
    if _DRV is None:
        prepare(job["pkg"], job["builddir"])
    if _HOME != os.getpid():
        # every process gets its own `runs` directory of the shared selene build (selene numbers run
        # directories by probing, which races between processes)
        import dataclasses
        from pathlib import Path

        inst = _DRV.built._instance
        mine = dataclasses.replace(inst, runs=Path(job["builddir"]) / f"runs{os.getpid()}")
        _DRV.built = dataclasses.replace(_DRV.built, _instance=mine)
        _HOME = os.getpid()
    out = []
    for h, ex in zip(job["hists"], job["execute"]):
        out.append(_DRV.replay(h, execute=ex))
    _DRV.clean()
    return out
