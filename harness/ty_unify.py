"""C12 helpers: problem generator (inputs only) and observers of the real code.

Nothing here decides an expected outcome: problems go to the real `unify` / type checker,
the observations go to spec/Unify_Trace.tla, and TLC decides.
"""
from __future__ import annotations

import random

import ty_terms as TT

# ----------------------------------------------------------------------------------------
# observers
# ----------------------------------------------------------------------------------------
CALL_BUDGET = 20000


def observe_unify(p: dict) -> dict:
    """Call the real unify(s, t, start) and record result, call count, exceptions."""
    import sys

    from guppylang_internals.tys import ty as T

    s, t = TT.to_real(p["s"]), TT.to_real(p["t"])
    start = TT.subst_to_real(p["start"])
    calls = [0]
    orig = T.unify

    def counting(a, b, sub):
        calls[0] += 1
        if calls[0] > CALL_BUDGET:
            raise RecursionError("call budget")
        return orig(a, b, sub)

    T.unify = counting  # recursive calls resolve the module global, so they are counted too
    old = sys.getrecursionlimit()
    sys.setrecursionlimit(3000)
    try:
        try:
            r = counting(s, t, dict(start))
            obs = ["none"] if r is None else ["subst", TT.subst_to_json(r)]
        except RecursionError:
            obs = ["exc", "RecursionError"]
        except Exception as e:  # noqa: BLE001
            obs = ["exc", type(e).__name__]
    finally:
        T.unify = orig
        sys.setrecursionlimit(old)
    return {"id": p["id"], "s": p["s"], "t": p["t"], "start": p["start"], "calls": calls[0], "obs": obs}


def observe_chunk(ps: list) -> list:
    return [observe_unify(p) for p in ps]


def ann(t) -> str:
    """Guppy annotation text of a term (program-level half)."""
    tag = t[0]
    if tag == "num":
        return t[1]
    if tag == "none":
        return "None"
    if tag == "ev":
        return f"T{t[1]}{t[2]}"
    if tag == "cv":
        return f"N{t[1]}"
    if tag == "nat":
        return str(t[1])
    if tag == "tup":
        return "tuple[" + ", ".join(ann(x) for x in t[1]) + "]" if t[1] else "tuple[()]"
    if tag == "fun":
        ins = ", ".join(ann(x) + (" @owned" if f == "owned" else "") for x, f in t[1])
        return f"Callable[[{ins}], {ann(t[2])}]"
    if tag in ("opq", "struct"):
        return t[1] + ("[" + ", ".join(ann(a) for a in t[2]) + "]" if t[2] else "")
    raise ValueError(t)


def call_program(p: dict) -> str:
    """Source of: a declared generic function whose parameter types are the elements of s, called
    with variables whose types are the elements of t."""
    vs = sorted(TT.term_vars(p["s"]))
    decl = []
    for v in vs:
        if v[0] == "ev":
            kw = "" if v[2] == "c" else ", copyable=False, droppable=False"
            decl.append(f'{ann(v)} = guppy.type_var("{ann(v)}"{kw})')
        else:
            decl.append(f'{ann(v)} = guppy.nat_var("{ann(v)}")')
    ps, as_ = p["s"][1], p["t"][1]
    return (
        "from collections.abc import Callable\nfrom typing import Generic\n"
        "from guppylang.std.option import Option\n"
        "_T = guppy.type_var('T', copyable=False, droppable=False)\n"
        "@guppy.struct\nclass S0:\n    x: int\n"
        "@guppy.struct\nclass G(Generic[_T]):\n    x: _T\n"
        + "\n".join(decl) + "\n"
        "@guppy.declare\n"
        f"def f({', '.join(f'x{i}: {ann(x)}' for i, x in enumerate(ps))}) -> None: ...\n"
        "@guppy\n"
        f"def main({', '.join(f'y{i}: {ann(x)}' for i, x in enumerate(as_))}) -> None:\n"
        f"    f({', '.join(f'y{i}' for i in range(len(as_)))})\n"
    )


def observe_call(p: dict) -> dict:
    import gp
    from guppylang_internals.error import GuppyError

    src = call_program(p)
    mod = None
    try:
        mod = gp.load(src)
        try:
            mod.main.check()
            obs = ["accept"]
        except GuppyError as e:
            err = e.error
            obs = ["reject", type(err).__name__]
    except Exception as e:  # noqa: BLE001
        obs = ["exc", type(e).__name__ + ": " + str(e)[:200]]
    finally:
        if mod is not None:
            gp.unload(mod)
    return {"id": p["id"], "s": p["s"], "t": p["t"], "start": [], "calls": 0, "obs": obs, "src": src}


def observe_call_chunk(ps: list) -> list:
    return [observe_call(p) for p in ps]


# ----------------------------------------------------------------------------------------
# generator (seeded; produces inputs only)
# ----------------------------------------------------------------------------------------
INT, NAT, FLOAT = ["num", "int"], ["num", "nat"], ["num", "float"]
NONE = ["none"]
BOOL, STR, QUBIT = ["opq", "bool", []], ["opq", "str", []], ["opq", "qubit", []]
S0 = ["struct", "S0", []]
TVARS = [["ev", "a", "c"], ["ev", "b", "c"], ["ev", "c", "c"]]
LVAR = ["ev", "l", "l"]
CVARS = [["cv", "n"], ["cv", "m"]]


class Gen:
    def __init__(self, seed: int, program_level: bool = False):
        self.r = random.Random(seed)
        self.pl = program_level
        if program_level:
            # no second numeric kind (the checker coerces numerics), no bound variables
            self.atoms = [INT, BOOL, NONE, QUBIT, S0, INT, BOOL]
            self.consts = [["nat", k] for k in (1, 2, 3)]
        else:
            self.atoms = [INT, NAT, FLOAT, BOOL, NONE, STR, QUBIT, S0, ["bv", 0, "c"], ["bv", 1, "l"], INT, BOOL]
            self.consts = [["nat", k] for k in (0, 1, 2, 3)] + [["cbv", 0]]

    def flag(self, x):
        return self.r.choice(["inout", "owned"]) if TT.noncopy(x) else "none"

    def const(self, pvar=0.3):
        return self.r.choice(CVARS) if self.r.random() < pvar else self.r.choice(self.consts)

    def tyvar(self):
        return LVAR if self.r.random() < 0.2 else self.r.choice(TVARS)

    def term(self, d, pvar=0.25):
        r = self.r
        if d == 0 or r.random() < 0.25:
            return self.tyvar() if r.random() < pvar else r.choice(self.atoms)
        k = r.random()
        if k < 0.35:
            n = r.choice([0, 1, 1, 2, 2, 2, 3])
            return ["tup", [self.term(d - 1, pvar) for _ in range(n)]]
        if k < 0.6:
            ins = [self.term(d - 1, pvar) for _ in range(r.choice([0, 1, 1, 2]))]
            return ["fun", [[x, self.flag(x)] for x in ins], self.term(d - 1, pvar), 0]
        if k < 0.8:
            return ["opq", "array", [self.term(d - 1, pvar), self.const()]]
        if k < 0.9:
            return ["opq", "Option", [self.term(d - 1, pvar)]]
        return ["struct", "G", [self.term(d - 1, pvar)]]

    # -- derive the two sides from a common base ------------------------------------------
    def abstract(self, t, p):
        """Replace random subterms by variables (keeps function types well-formed)."""
        r = self.r
        if TT.is_const(t):
            return r.choice(CVARS) if (t[0] != "cv" and r.random() < p) else t
        if t[0] not in ("ev",) and r.random() < p:
            return LVAR if (TT.noncopy(t) and r.random() < 0.7) else r.choice(TVARS)
        tag = t[0]
        if tag == "tup":
            return ["tup", [self.abstract(x, p) for x in t[1]]]
        if tag == "fun":
            ins = []
            for x, f in t[1]:
                x2 = self.abstract(x, p)
                f2 = f if (f != "none") == TT.noncopy(x2) else self.flag(x2)
                ins.append([x2, f2])
            return ["fun", ins, self.abstract(t[2], p), t[3]]
        if tag in ("opq", "struct"):
            return [tag, t[1], [self.abstract(a, p) for a in t[2]]]
        return t

    def perturb(self, t):
        """One random local change somewhere in t."""
        r = self.r
        ch = TT.children(t)
        if ch and r.random() < 0.7:
            i = r.randrange(len(ch))
            ch2 = list(ch)
            ch2[i] = self.perturb(ch[i])
            return self.rebuild(t, ch2)
        tag = t[0]
        if TT.is_const(t):
            return self.const(0.2)
        if tag == "tup" and r.random() < 0.6:
            els = list(t[1])
            if els and r.random() < 0.5:
                els.pop(r.randrange(len(els)))
            elif len(els) >= 2 and r.random() < 0.5:
                els[0], els[-1] = els[-1], els[0]
            else:
                els.append(self.term(0))
            return ["tup", els]
        if tag == "fun" and t[1] and r.random() < 0.7:
            ins = [list(x) for x in t[1]]
            i = r.randrange(len(ins))
            if ins[i][1] != "none":
                ins[i][1] = "owned" if ins[i][1] == "inout" else "inout"
            else:
                ins.pop(i)
            return ["fun", ins, t[2], t[3]]
        return self.term(0) if r.random() < 0.7 else self.term(1)

    def rebuild(self, t, ch):
        tag = t[0]
        if tag == "tup":
            return ["tup", ch]
        if tag == "fun":
            ins = []
            for (x, f), x2 in zip(t[1], ch[:-1]):
                ins.append([x2, f if (f != "none") == TT.noncopy(x2) else self.flag(x2)])
            return ["fun", ins, ch[-1], t[3]]
        if tag in ("opq", "struct"):
            return [tag, t[1], ch]
        return t

    def start(self, pool_terms):
        """0..2 bindings var -> term; acyclic by construction check (precondition of unify)."""
        r = self.r
        n = r.choice([0, 0, 1, 1, 2])
        for _ in range(20):
            b = {}
            for _ in range(n):
                if r.random() < 0.25:
                    v = r.choice(CVARS)
                    b[TT.tl(v)] = self.const(0.3)
                else:
                    v = self.tyvar()
                    cands = [x for x in pool_terms if not TT.is_const(x)]
                    b[TT.tl(v)] = r.choice(cands) if cands and r.random() < 0.6 else self.term(r.choice([0, 1, 1, 2]), 0.4)
            if acyclic(b):
                return [[list_of(k), v] for k, v in b.items()]
        return []

    def problem(self, maxd=3):
        r = self.r
        k = r.random()
        if k < 0.15:
            s, t = self.term(r.randint(0, maxd), 0.35), self.term(r.randint(0, maxd), 0.35)
        elif k < 0.3:
            # variables against terms over the same variables (occurs-check territory)
            n = r.choice([2, 2, 3])
            vs = [self.tyvar() for _ in range(n)]
            s = ["tup", vs]
            t = ["tup", [self.term(r.choice([0, 1, 1, 2]), 0.6) for _ in range(n)]]
            if r.random() < 0.5:
                s, t = t, s
        elif k < 0.34:
            s, t = self.const(0.5), self.const(0.5)
        elif k < 0.46 and k >= 0.4:
            # function types over closed non-copyable inputs (linear and affine), flags flipped or not
            ncs = [QUBIT, ["opq", "array", [INT, ["nat", 2]]], ["opq", "array", [QUBIT, ["nat", 1]]],
                   ["tup", [QUBIT, INT]], ["opq", "Option", [QUBIT]], ["struct", "G", [["opq", "array", [BOOL, ["nat", 0]]]]]]
            ins = [r.choice(ncs + [INT]) for _ in range(r.choice([1, 1, 2]))]
            out = self.term(1, 0.4)
            s = ["fun", [[x, self.flag(x)] for x in ins], out, 0]
            t = ["fun", [[x, self.flag(x)] for x in ins], self.abstract(out, 0.3), 0]
            if r.random() < 0.3:
                s, t = ["tup", [s, self.tyvar()]], ["tup", [self.tyvar(), t]]
        elif k < 0.4:
            # const variables against const variables, some already solved
            n = r.choice([1, 2, 2])
            s = ["tup", [["opq", "array", [self.term(0, 0.5), self.const(0.8)]] for _ in range(n)]]
            t = ["tup", [["opq", "array", [self.term(0, 0.5), self.const(0.6)]] for _ in range(n)]]
            if r.random() < 0.5:
                s, t = s[1][0], t[1][0]
            st = {}
            for v in r.sample(CVARS, r.choice([0, 1, 1, 2])):
                st[TT.tl(v)] = self.const(0.6)
            if acyclic(st):
                return {"s": s, "t": t, "start": [[list_of(k2), v] for k2, v in st.items()]}
        else:
            base = self.term(r.randint(1, maxd), 0.2)
            s = self.abstract(base, r.choice([0.1, 0.2, 0.35]))
            t = self.abstract(base, r.choice([0.1, 0.2, 0.35]))
            if r.random() < 0.45:
                t = self.perturb(t)
            if r.random() < 0.1:
                s = self.perturb(s)
        if (not self.pl) and r.random() < 0.04 and s[0] == "fun" and t[0] == "fun":
            s = s[:3] + [1]
            t = t[:3] + [r.choice([1, 1, 0])]
        pool_terms = [x for x in subterms(s) + subterms(t)]
        return {"s": s, "t": t, "start": self.start(pool_terms)}

    def call_problem(self):
        """Program level: parameter types with variables against closed argument types."""
        r = self.r
        n = r.choice([1, 2, 2, 3])
        if r.random() < 0.12:
            # a function-typed parameter over a closed non-copyable input, flags equal or flipped
            x = r.choice([QUBIT, ["opq", "array", [INT, ["nat", 2]]], ["tup", [QUBIT, INT]]])
            out = r.choice([INT, NONE, BOOL])
            p = ["fun", [[x, r.choice(["inout", "owned"])]], r.choice([out, TVARS[0]]), 0]
            a = ["fun", [[x, r.choice(["inout", "owned"])]], out, 0]
            return {"s": ["tup", [p]], "t": ["tup", [a]], "start": []}
        if r.random() < 0.12:
            # one const variable shared by two array parameters, lengths equal or not
            cv = r.choice(CVARS)
            e1, e2 = r.choice([INT, BOOL]), r.choice([INT, BOOL])
            k1 = r.choice([1, 2, 3])
            k2 = k1 if r.random() < 0.5 else r.choice([1, 2, 3])
            ps = [["opq", "array", [r.choice([e1, TVARS[0]]), cv]], ["opq", "array", [r.choice([e2, TVARS[1]]), cv]]]
            as_ = [["opq", "array", [e1, ["nat", k1]]], ["opq", "array", [e2, ["nat", k2]]]]
            return {"s": ["tup", ps], "t": ["tup", as_], "start": []}
        for _ in range(50):
            params, args = [], []
            for _ in range(n):
                base = self.term(r.randint(0, 2), 0.0)
                p = self.abstract(base, r.choice([0.2, 0.35, 0.5]))
                a = base if r.random() < 0.7 else self.perturb(base)
                params.append(p)
                args.append(a)
            s, t = ["tup", params], ["tup", args]
            if TT.term_vars(t):
                continue  # arguments must be closed
            return {"s": s, "t": t, "start": []}
        return {"s": ["tup", [INT]], "t": ["tup", [INT]], "start": []}


def list_of(t):
    return [list_of(x) for x in t] if isinstance(t, tuple) else t


def subterms(t):
    out = [t]
    for c in TT.children(t):
        out += subterms(c)
    return out


def acyclic(b: dict) -> bool:
    """b: var(tuple) -> term. Precondition filter for generated start substitutions."""
    def reach(v, seen):
        if v in seen:
            return True
        if v not in b:
            return False
        seen = seen | {v}
        return any(reach(u, seen) for u in TT.term_vars(b[v]))
    return not any(reach(v, frozenset()) for v in b)
