"""JSON term projection of guppylang types/consts (shared by C12 and C31).

Term grammar (identical to spec/Unify.tla and spec/TypePrint.tla):
  ["num", "int"|"nat"|"float"]   ["none"]
  ["ev", name, "c"|"l"]          existential type variable (copyable+droppable | linear)
  ["bv", idx, "c"|"l"]           bound type variable
  ["tup", [t...]]
  ["fun", [[ty, "none"|"inout"|"owned"]...], out, np]
  ["opq", name, [args...]]       bool, str, qubit, array, Option, frozenarray, list
  ["struct", name, [args...]]    S0, G[T], G2[U, n]
  ["nat", k]  ["cv", name]  ["cbv", idx]
`to_real` builds the real objects of /repo's guppylang_internals.tys, `from_real` projects back.
This file contains no oracle logic - only construction and projection.
"""
from __future__ import annotations

import ast
import functools

import gp  # noqa: F401  activates the shim and puts /repo on sys.path

SUPPORT_SRC = '''
from collections.abc import Callable
from typing import Generic
from guppylang.std.option import Option
_T = guppy.type_var("T", copyable=False, droppable=False)

@guppy.struct
class S0:
    x: int

@guppy.struct
class G(Generic[_T]):
    x: _T

@guppy.struct
class G2[U, n: nat]:
    x: array[U, n]

@guppy
def anchor() -> None:
    pass
'''

EV_BASE = 10_000_000


class World:
    """Real definitions the terms refer to (loaded once per process)."""

    def __init__(self):
        from guppylang_internals.checker.core import Globals
        from guppylang_internals.engine import DEF_STORE, ENGINE
        from guppylang_internals.tys import builtin as B
        from guppylang_internals.tys.qubit import qubit_ty

        self.mod = gp.load(SUPPORT_SRC, name="_verif_ty_support")
        self.globals = Globals(DEF_STORE.frames[self.mod.anchor.id])
        self.structs = {n: ENGINE.get_checked(getattr(self.mod, n).id) for n in ("S0", "G", "G2")}
        self.opaque = {
            "bool": B.bool_type_def, "str": B.string_type_def, "array": B.array_type_def,
            "Option": B.option_type_def, "frozenarray": B.frozenarray_type_def,
            "list": B.list_type_def, "qubit": qubit_ty().defn,
        }
        self.ev_ids: dict[tuple, int] = {}

    def ev_id(self, key) -> int:
        if key not in self.ev_ids:
            self.ev_ids[key] = EV_BASE + len(self.ev_ids)
        return self.ev_ids[key]


@functools.cache
def world() -> World:
    return World()


FLAGS = ("none", "inout", "owned")


def to_real(t):
    """JSON term -> real Type | Const."""
    from guppylang_internals.tys import ty as T
    from guppylang_internals.tys.arg import ConstArg, TypeArg
    from guppylang_internals.tys.const import BoundConstVar, ConstValue, ExistentialConstVar
    from guppylang_internals.tys.param import TypeParam

    w = world()
    nat = T.NumericType(T.NumericType.Kind.Nat)
    tag = t[0]
    if tag == "num":
        return T.NumericType({"int": T.NumericType.Kind.Int, "nat": T.NumericType.Kind.Nat,
                              "float": T.NumericType.Kind.Float}[t[1]])
    if tag == "none":
        return T.NoneType()
    if tag == "ev":
        c = t[2] == "c"
        return T.ExistentialTypeVar(t[1], w.ev_id(("ev", t[1], t[2])), c, c)
    if tag == "bv":
        c = t[2] == "c"
        return T.BoundTypeVar(f"B{t[1]}", t[1], c, c)
    if tag == "tup":
        return T.TupleType([to_real(x) for x in t[1]])
    if tag == "fun":
        fl = {"none": T.InputFlags.NoFlags, "inout": T.InputFlags.Inout, "owned": T.InputFlags.Owned}
        params = [TypeParam(i, f"B{i}", False, False) for i in range(t[3])]
        return T.FunctionType([T.FuncInput(to_real(x), fl[f]) for x, f in t[1]], to_real(t[2]), params)
    if tag in ("opq", "struct"):
        args = []
        for a in t[2]:
            r = to_real(a)
            args.append(TypeArg(r) if isinstance(r, T.TypeBase) else ConstArg(r))
        if tag == "opq":
            return T.OpaqueType(args, w.opaque[t[1]])
        return T.StructType(args, w.structs[t[1]])
    if tag == "nat":
        return ConstValue(nat, t[1])
    if tag == "cv":
        return ExistentialConstVar(nat, t[1], w.ev_id(("cv", t[1])))
    if tag == "cbv":
        return BoundConstVar(nat, f"C{t[1]}", t[1])
    raise ValueError(f"unknown term {t!r}")


def from_real(x):
    """Real Type | Const | Argument -> JSON term (total on what the checks construct)."""
    from guppylang_internals.tys import ty as T
    from guppylang_internals.tys.arg import ConstArg, TypeArg
    from guppylang_internals.tys.const import BoundConstVar, ConstValue, ExistentialConstVar

    if isinstance(x, TypeArg):
        return from_real(x.ty)
    if isinstance(x, ConstArg):
        return from_real(x.const)
    lin = lambda v: "c" if (v.copyable and v.droppable) else ("l" if not v.copyable and not v.droppable else
                                                             ("a" if v.droppable else "k"))
    match x:
        case T.NumericType(kind=k):
            return ["num", k.name.lower()]
        case T.NoneType():
            return ["none"]
        case T.ExistentialTypeVar():
            return ["ev", x.display_name, lin(x)]
        case T.BoundTypeVar():
            return ["bv", x.idx, lin(x)]
        case T.TupleType():
            return ["tup", [from_real(e) for e in x.element_types]]
        case T.FunctionType():
            def fl(f):
                if T.InputFlags.Comptime in f:
                    return "comptime"
                if T.InputFlags.Owned in f:
                    return "owned"
                if T.InputFlags.Inout in f:
                    return "inout"
                return "none"
            return ["fun", [[from_real(i.ty), fl(i.flags)] for i in x.inputs], from_real(x.output), len(x.params)]
        case T.OpaqueType():
            return ["opq", x.defn.name, [from_real(a) for a in x.args]]
        case T.StructType():
            return ["struct", x.defn.name, [from_real(a) for a in x.args]]
        case ConstValue(value=v):
            if isinstance(v, bool):
                return ["boolc", v]
            if isinstance(v, int):
                return ["nat", v]
            return ["constval", repr(v)]
        case ExistentialConstVar():
            return ["cv", x.display_name]
        case BoundConstVar():
            return ["cbv", x.idx]
    raise ValueError(f"cannot project {x!r}")


def subst_to_json(subst) -> list:
    return [[from_real(k), from_real(v)] for k, v in subst.items()]


def subst_to_real(pairs) -> dict:
    return {to_real(k): to_real(v) for k, v in pairs}


def parse_annotation(text: str):
    """Parse `text` as a Guppy type annotation with the real parser (type_from_ast)."""
    from guppylang_internals.tys.parsing import TypeParsingCtx, type_from_ast

    node = ast.parse(text, mode="eval").body
    return type_from_ast(node, TypeParsingCtx(world().globals))


# ---- helpers on JSON terms used only to *generate* well-formed inputs (never as an oracle) ----
def children(t):
    tag = t[0]
    if tag == "tup":
        return list(t[1])
    if tag == "fun":
        return [x for x, _ in t[1]] + [t[2]]
    if tag in ("opq", "struct"):
        return list(t[2])
    return []


def is_const(t):
    return t[0] in ("nat", "cv", "cbv")


def term_vars(t, acc=None):
    acc = set() if acc is None else acc
    if t[0] in ("ev", "cv"):
        acc.add(tuple(t))
    for c in children(t):
        term_vars(c, acc)
    return acc


def noncopy(t) -> bool:
    """Declared non-copyability (same definition as NonCopy in Unify.tla); decides which flags
    the generator may put on a function input so that generated function types are well-formed."""
    tag = t[0]
    if tag in ("ev", "bv"):
        return t[2] == "l"
    if tag == "tup":
        return any(noncopy(x) for x in t[1])
    if tag == "opq":
        return t[1] in ("qubit", "array") or any(not is_const(a) and noncopy(a) for a in t[2])
    if tag == "struct":
        return t[1] == "G2" or any(not is_const(a) and noncopy(a) for a in t[2])
    return False


def depth(t) -> int:
    ch = children(t)
    return 0 if not ch else 1 + max(depth(c) for c in ch)


def size(t) -> int:
    return 1 + sum(size(c) for c in children(t))


def tl(t):
    """JSON lists -> nested tuples (hashable)."""
    return tuple(tl(x) for x in t) if isinstance(t, list | tuple) else t
