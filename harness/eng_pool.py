"""C11: the pool of definitions (one Guppy module text) and their static description.

OWN: the definitions of the pool module the engine-state projection reports (the static description of
their references lives in spec/Engine.tla); ENTRIES: the ones used as entry points of public calls.
"""
from __future__ import annotations

OWN = ["plain", "caller", "main0", "bad_type", "calls_bad", "ct_good", "ct_bad", "ct_many", "ct_intr", "ct_exit", "ct_expr", "closure", "first", "use_generic",
       "mono", "use_mono", "Pt", "use_struct", "ov_int", "ov_float", "over", "use_over", "effects", "long_names", "loops", "n"]
ENTRIES = ["plain", "caller", "main0", "bad_type", "calls_bad", "ct_good", "ct_bad", "ct_many", "ct_intr", "ct_exit", "ct_expr", "closure", "use_generic",
           "use_mono", "use_struct", "use_over", "effects", "long_names", "loops"]

PRELUDE = """\
from guppylang import guppy, comptime
from guppylang.std.builtins import array, owned, nat, result
"""

SRC = '''
n = guppy.nat_var("n")


@guppy
def plain(x: int) -> int:
    return x * 2 + 1


@guppy
def caller(x: int) -> int:
    return plain(x) + plain(x + 1)


@guppy
def main0() -> int:
    return caller(20) + 2


@guppy
def bad_type(x: int) -> int:
    return x + 1.5


@guppy
def calls_bad(x: int) -> int:
    return plain(x) + bad_type(x)


@guppy.comptime
def ct_good(x: int) -> int:
    y = x
    for i in range(3):
        y = y + plain(i)
    return y


@guppy.comptime
def ct_bad(x: int) -> int:
    y = x
    for i in range(4):
        y = y + plain(i)
    return y + [1, 2][5]


@guppy.comptime
def ct_many(x: int) -> int:
    # uses > 100 generated temporaries: pushes the session counter past two digit boundaries
    y = x
    for i in range(35):
        y = y + plain(i)
    return y


@guppy.comptime
def ct_intr(x: int) -> int:
    # the user hits Ctrl-C while this is being traced, after side-effecting ops were emitted
    result("t", x)
    y = x + plain(1)
    result("u", y)
    raise KeyboardInterrupt


@guppy.comptime
def ct_exit(x: int) -> int:
    result("t", x)
    y = x + plain(2)
    raise SystemExit(3)


@guppy
def ct_expr() -> int:
    return comptime(plain(1))


@guppy
def closure(x: int) -> int:
    def bar(y: int, z: int) -> int:
        if y == 0:
            return z
        return bar(z - z, z * x)

    return bar(x, 3)


@guppy
def first(xs: array[int, n] @ owned) -> int:
    s = 0
    for x in xs:
        s += x
    return s


@guppy
def use_generic(a: int) -> int:
    return first(array(a, 2)) + first(array(a, 3, 4))


@guppy
def mono(k: int @ comptime, x: int) -> int:
    s = x
    for i in range(3):
        s += k
    return s


@guppy
def use_mono(a: int) -> int:
    return mono(3, a) + mono(4, a)


@guppy.struct
class Pt:
    x: int
    y: int

    @guppy
    def norm1(self: "Pt") -> int:
        return self.x + self.y


@guppy
def use_struct(a: int) -> int:
    p = Pt(a, 2)
    return p.norm1()


@guppy
def ov_int(x: int) -> int:
    return x + 1


@guppy
def ov_float(x: float) -> float:
    return x + 0.5


@guppy.overload(ov_int, ov_float)
def over(*args): ...


@guppy
def use_over(a: int, b: float) -> float:
    return over(a) + over(b)


@guppy
def effects(k: int) -> int:
    result("a", k)
    if k > 3:
        result("b", k + 1)
    return k


@guppy
def long_names(n: int) -> int:
    total = 0
    totals = 1.5
    for i in range(n):
        total += i
        totals = totals + 1.0
    if totals > 3.0:
        total += 1
    return total


@guppy
def loops(k: int) -> int:
    acc = 0
    for i in range(k):
        for j in range(i):
            acc += i * j
    return acc
'''
